import H3.Model.WriteBuf
import H3.Model.SendSide
import H3.Model.Qpack
import H3.Model.Headers
import H3.Model.FrameStream
import H3.Model.ReqRecv
/-! Glue between the component models for property C01 (end-to-end fidelity).  Nothing new is
    modelled here: every definition composes functions of `H3.Headers` (message ↔ field list),
    `H3.Qpack` (field list ↔ field section), `H3.WriteBuf` / `H3.SendSide` (frames, what is
    written on a request stream), `H3.FS` (`FrameStream` over a transport script) and
    `H3.ReqRecv` (`resolve_request` / `recv_response`, `recv_data`, `recv_trailers`).

    * `Message`: what the application submits — a head (request: method, the caller's URI parts,
      the `Protocol` extension; response: status), the header fields *as a list* (repeated names
      allowed; the application `append`s them to a `HeaderMap` in this order), the body as the
      pieces handed to `send_data` one by one, optional trailers.
    * `wire m`: the bytes `send_request`/`send_response`, `send_data`*, `send_trailers` put on
      the request stream; `streamBytes m g` adds the grease frame `finish()` writes first when
      this handle still owes one.
    * `sendAll`: the sender as a program of awaited calls against write-acceptance scripts.
    * `recvPattern`: the documented receive pattern with every call awaited (polled again after
      `Pending`) against a transport script; `deliver` decodes what it hands out. -/
namespace H3.E2E
open H3.WriteBuf H3.SendSide H3.Headers
open H3.ReqRecv (Role Hdr HClass Res Env St FSt Trace fsSrc fsFuel pollHead pollRecvData pollRecvTrailers)

abbrev Bytes := List Nat

/-! ### the message -/

inductive Head where
  /-- `http::Request` parts as `send_request` sees them: method, `uri::Parts`, `Protocol`
      extension -/
  | request (method : Bytes) (uri : UriParts) (ext : Option Bytes)
  /-- `http::Response`: the status code -/
  | response (status : Nat)
deriving Repr, DecidableEq

structure Message where
  head : Head
  /-- header fields in the order the application appended them (names may repeat) -/
  headers : List FieldLine
  /-- the body, one entry per `send_data` call (an entry may be empty) -/
  pieces : List Bytes
  /-- `send_trailers`, when called -/
  trailers : Option (List FieldLine)
deriving Repr, DecidableEq

/-- the application's `HeaderMap`: `append` for every field, in order -/
def mapOf (l : List FieldLine) : HeaderMap := l.foldl (fun m f => hmAppend m f.1 f.2) []

/-- ... with the capacity of `http::HeaderMap` (`hmTryAppend`): `none` = some `append` of the
    application finds the map full (`try_append` fails, `append` panics) -/
def fillFrom : HeaderMap → List FieldLine → Option HeaderMap
  | m, [] => some m
  | m, f :: r =>
    match hmTryAppend m f.1 f.2 with
    | some m' => fillFrom m' r
    | none => none

/-- the application can hold the fields (in this order of `append`s) in a `HeaderMap` -/
def Holdable (l : List FieldLine) : Prop := (fillFrom [] l).isSome = true

/-- `Header::request(..)` / `Header::response(..)` for the message head -/
def headerOf (m : Message) : Headers.Res Header :=
  match m.head with
  | .request method uri ext => Header.request method uri (mapOf m.headers) ext
  | .response status => .ok (Header.response status (mapOf m.headers))

/-- the iterator of a `Header` as the list `encode_stateless` is given -/
def qfields (l : List FieldLine) : List Qpack.Field := l.map (fun f => ⟨f.1, f.2⟩)

/-- and back: the decoded `Vec<HeaderField>` as `Header::try_from` reads it -/
def lines (fs : List Qpack.Field) : List FieldLine := fs.map (fun f => (f.name, f.value))

/-- `qpack::encode_stateless(&mut block, header)`: the block -/
def fieldSection (h : Header) : Bytes := (Qpack.encodeStateless (qfields h.wireFields)).1

/-- `Header::trailer(map)` encoded -/
def trailerSection (t : List FieldLine) : Bytes := fieldSection (Header.trailer (mapOf t))

/-! ### what the sender writes -/

/-- the frames of a message in call order: `send_request`/`send_response` (HEADERS), one DATA
    frame per `send_data` — also for an empty buffer —, `send_trailers` (HEADERS) -/
def framesOf (m : Message) (h : Header) : List SFrame :=
  .headers (fieldSection h) ::
    (m.pieces.map .data ++
      (match m.trailers with
       | none => []
       | some t => [.headers (trailerSection t)]))

/-- the content of the `WriteBuf` of a frame: encoded header, then the payload -/
def frameBytes (f : SFrame) : Bytes := (encodeFrame f).getD [] ++ (framePayload f).getD []

def wireOf (fs : List SFrame) : Bytes := (fs.map frameBytes).flatten

/-- the bytes of the message on its stream (nothing when `Header::request` refuses it) -/
def wire (m : Message) : Bytes :=
  match headerOf m with
  | .ok h => wireOf (framesOf m h)
  | _ => []

/-- `finish()` on a handle that still owes the connection's grease frame (`g = some draw`)
    writes that frame before `poll_finish` -/
def greaseBytes : Option Nat → Bytes
  | none => []
  | some gN => frameBytes (.grease (greaseId gN))

/-- everything between stream open and FIN -/
def streamBytes (m : Message) (g : Option Nat) : Bytes := wire m ++ greaseBytes g

/-! ### the sender as a program on one request stream

    `SOp` are the steps of `H3.SendSide.step` that address one request stream, acting on its
    `Stream` record (`proj` below maps a global step to them). -/

inductive SOp where
  | headers (fs : Bytes)
  | data (buf : Bytes)
  | finish (gN : Nat)
  | poll (k : Nat)
deriving Repr, DecidableEq

def SOp.apply (s : Stream) : SOp → Stream
  | .headers fs => onRequest (fun s => s.start (fromFrame (.headers fs))) s
  | .data buf => onRequest (fun s => s.start (fromFrame (.data buf))) s
  | .finish gN => onRequest (finishStream gN) s
  | .poll k => s.poll k

def runS (s : Stream) (ops : List SOp) : Stream := ops.foldl SOp.apply s

/-- the step of the connection machine as seen by request stream `sid`: `none` = it does not
    address this stream (`sendRequest`/`acceptRequest` create streams, they never touch an
    existing one; `goaway` addresses the control stream) -/
def proj (sid : Nat) : Step → Option SOp
  | .sendHeaders s fs => if s = sid then some (.headers fs) else none
  | .sendData s buf => if s = sid then some (.data buf) else none
  | .finish s gN => if s = sid then some (.finish gN) else none
  | .poll s k => if s = sid then some (.poll k) else none
  | _ => none

/-- the record of stream `sid` (first entry with this id) -/
def getStream (ss : List (Nat × Stream)) (sid : Nat) : Option Stream :=
  (ss.find? (fun e => e.1 == sid)).map (·.2)

/-- one awaited call: the call hands its `WriteBuf` over, then the transport polls of the
    script (entry = bytes it is willing to take, `0` = `Pending`) -/
def callS (s : Stream) (c : SOp × List Nat) : Stream := runS (c.1.apply s) (c.2.map .poll)

/-- a program of awaited calls -/
def sendAll (s : Stream) (calls : List (SOp × List Nat)) : Stream := calls.foldl callS s

/-- R-14: every call is awaited to completion — when the next call is made (and at the end)
    the `WriteBuf` of the previous one has been drained -/
def Awaited : Stream → List (SOp × List Nat) → Prop
  | _, [] => True
  | s, c :: r => (callS s c).cur = none ∧ Awaited (callS s c) r

def frameOp : SFrame → SOp
  | .data b => .data b
  | .headers fs => .headers fs
  | _ => .poll 0

/-- one call per frame, each with its acceptance script (missing ones are empty) -/
def frameCalls : List SFrame → List (List Nat) → List (SOp × List Nat)
  | [], _ => []
  | f :: r, scripts => (frameOp f, scripts.headD []) :: frameCalls r scripts.tail

/-- the calls that submit a message: one per frame, then `finish()` -/
def callsOf (fs : List SFrame) (gN : Nat) (scripts : List (List Nat)) : List (SOp × List Nat) :=
  frameCalls fs scripts ++ [(.finish gN, (scripts.drop fs.length).headD [])]

/-- a fresh request stream handle: client `send_request` has opened it / server `accept` has
    handed it out; `g` = this handle owes the grease frame -/
def freshStream (g : Bool) : Stream := mkStream .request none false g

/-! ### the receiver: the documented pattern, every call awaited -/

/-- `.await` on one call of the receive API: the task polls the call; on `Pending` it sleeps until
    the transport wakes it and polls the same call again.  In the script model a `Pending` answer
    has consumed at least one transport event, so the call is polled again while events are left;
    once there are none it stays pending.  `fuel` bounds the number of polls (`.invalid` = fuel
    exhausted, a model artefact the theorems exclude). -/
def await (poll : St FSt → Res × St FSt) : Nat → St FSt → Res × St FSt
  | 0, st => (.invalid, st)
  | fuel+1, st =>
    let p := poll st
    if p.1 = .pending ∧ p.2.src.2 ≠ [] then await poll fuel p.2 else p

def awaitCall (poll : St FSt → Res × St FSt) (st : St FSt) : Res × St FSt :=
  await poll (fsFuel st.src) st

/-- `recv_data().await` -/
def recvData (st : St FSt) : Res × St FSt :=
  awaitCall (fun x => pollRecvData fsSrc (fsFuel x.src) x) st

/-- `recv_data().await` until it answers something else than a piece of data -/
def recvBody : Nat → St FSt → List Res × St FSt
  | 0, st => ([.invalid], st)
  | fuel+1, st =>
    let p := recvData st
    match p.1 with
    | .data d =>
      let q := recvBody fuel p.2
      (.data d :: q.1, q.2)
    | r => ([r], p.2)

/-- after the head: the body until its end is reported, then `recv_trailers().await` -/
def recvTail (H : Hdr) (st : St FSt) : List Res × Option Res × Env :=
  let p := recvBody (fsFuel st.src) st
  if p.1.getLast? = some .end_ then
    let t := awaitCall (pollRecvTrailers fsSrc H) p.2
    (p.1, some t.1, t.2.env)
  else (p.1, none, p.2.env)

/-- `resolve_request().await` / `recv_response().await`, then the body, then the trailers, against
    a transport script (chunks, `pend` = a poll that found nothing, FIN, RESET) -/
def recvPattern (role : Role) (H : Hdr) (script : List H3.FS.Ev) : Trace :=
  let p := awaitCall (pollHead role fsSrc H) { src := ({}, script) }
  match p.1 with
  | .head b =>
    let q := recvTail H p.2
    { head := .head b, body := q.1, trailers := q.2.1, env := q.2.2 }
  | r => { head := r, env := p.2.env }

/-! ### the calls of the receive API, one poll each -/

inductive RCall where
  | head (role : Role)
  | data
  | trailers
deriving Repr, DecidableEq

/-- one poll of a call -/
def RCall.poll (H : Hdr) : RCall → St FSt → Res × St FSt
  | .head role => pollHead role fsSrc H
  | .data => fun x => pollRecvData fsSrc (fsFuel x.src) x
  | .trailers => pollRecvTrailers fsSrc H

/-! ### QPACK and header validation plugged into the receive model -/

def classOf {α : Type} : Headers.Res α → HClass
  | .ok _ => .ok
  | _ => .malformed

/-- what `decode_stateless` + `Header::try_from` + `into_*` make of a block (`max` = the
    receiver's `max_field_section_size`).  `HeaderTooLong` (C10: a stream-level refusal with its
    own codes, see `Qpack.recvSite`) is filed under `malformed` here: like a malformed message it
    ends the call with a stream error and is never delivered. -/
def classifyBlock {α : Type} (max : Nat) (parse : List FieldLine → Headers.Res α) (block : Bytes) : HClass :=
  match Qpack.decodeStateless block max with
  | .ok fs _ => classOf (parse (lines fs))
  | .err (.headerTooLong _) => .malformed
  | .err _ => .qpack

def hdrOf (H : Http) (role : Role) (max : Nat) : Hdr where
  head := fun b =>
    match role with
    | .server => classifyBlock max (recvRequest H) b
    | .client => classifyBlock max (recvResponse H) b
  trailer := classifyBlock max (recvTrailers H)

inductive HeadOut where
  /-- `resolve_request` → `http::Request` parts -/
  | request (p : RequestParts)
  /-- `recv_response` → status and header map -/
  | response (status : Nat) (headers : HeaderMap)
deriving Repr, DecidableEq

def optOf {α : Type} : Headers.Res α → Option α
  | .ok a => some a
  | _ => none

def decodeWith {α : Type} (max : Nat) (parse : List FieldLine → Headers.Res α) (block : Bytes) : Option α :=
  match Qpack.decodeStateless block max with
  | .ok fs _ => optOf (parse (lines fs))
  | .err _ => none

def decodeHead (H : Http) (role : Role) (max : Nat) (block : Bytes) : Option HeadOut :=
  match role with
  | .server => (decodeWith max (recvRequest H) block).map .request
  | .client => (decodeWith max (recvResponse H) block).map (fun r => .response r.1 r.2)

/-- the bytes of the `Ok(Some(bytes))` answers, in call order -/
def bodyOf : List Res → Bytes
  | [] => []
  | .data d :: r => d ++ bodyOf r
  | _ :: r => bodyOf r

/-- how many `recv_data` calls answered `Ok(None)` -/
def endsOf (rs : List Res) : Nat := (rs.filter (· == .end_)).length

/-- what the receiving application has in hand after the documented pattern -/
structure Delivered where
  /-- answer of `resolve_request` / `recv_response` (`none`: an error or still pending) -/
  head : Option HeadOut
  /-- concatenation of the pieces `recv_data` handed out -/
  body : Bytes
  /-- the last `recv_data` answered `Ok(None)` -/
  cleanEnd : Bool
  /-- number of `Ok(None)` answers -/
  ends : Nat
  /-- `recv_trailers`: `none` = not called / failed / pending, `some none` = `Ok(None)` -/
  trailers : Option (Option HeaderMap)
  /-- error cell, RESET_STREAM sent, STOP_SENDING sent -/
  env : Env
deriving Repr, DecidableEq

/-- what the application has in hand, decoded from the answers of its calls -/
def deliverOf (H : Http) (role : Role) (max : Nat) (t : Trace) : Delivered :=
  { head := match t.head with
      | .head b => decodeHead H role max b
      | _ => none
    body := bodyOf t.body
    cleanEnd := t.body.getLast? == some .end_
    ends := endsOf t.body
    trailers := match t.trailers with
      | some (.trailers b) => (decodeWith max (recvTrailers H) b).map some
      | some .noTrailers => some none
      | _ => none
    env := t.env }

def deliver (H : Http) (role : Role) (max : Nat) (script : List H3.FS.Ev) : Delivered :=
  deliverOf H role max (recvPattern role (hdrOf H role max) script)

/-- a transport that delivers `w` in chunks of `k ≥ 1` bytes and then FIN -/
def chunksOf (k : Nat) : Nat → Bytes → List H3.FS.Ev
  | 0, _ => []
  | _, [] => []
  | fuel+1, w => .chunk (w.take (max k 1)) :: chunksOf k fuel (w.drop (max k 1))

def chunked (k : Nat) (w : Bytes) : List H3.FS.Ev := chunksOf k w.length w ++ [.fin]

/-! ### the `http` round-trip laws C01 adds to `HttpLaws`

    The model keeps `Scheme`, `Authority`, `PathAndQuery` values as their `as_str()`.  A value
    the sending application holds was produced by the crate's parser, and what the receiver does
    is parse its `as_str()` again and hand the parts to `Uri::builder`. -/

structure HttpRoundTrip (H : Http) : Prop where
  /-- `Scheme::from_str(s.as_str())` gives `s` back -/
  scheme_print_parse : ∀ w v, H.parseScheme w = some v → H.parseScheme v = some v
  /-- `PathAndQuery::from_str(p.as_str())` gives `p` back -/
  path_print_parse : ∀ w v, H.parsePath w = some v → H.parsePath v = some v
  /-- a `PathAndQuery` never holds a `#`: the parser cuts the fragment off (so the `:path` h3 writes
      from an `http::Uri` passes the receiver's own check, `pathSyntax`, D-12g) -/
  path_print_no_fragment : ∀ w v, H.parsePath w = some v → pathSyntax v = true
  /-- a built `Uri` has the parts it was built from -/
  uri_parts : ∀ s a p u, H.uriBuild s a p = some u → u = { scheme := s, authority := some a, path := p }
  /-- scheme + authority + path-and-query, each a value of the crate, always build -/
  uri_builds : ∀ s a p, H.parseScheme s = some s → H.parseAuthority a = some a →
    H.parsePath p = some p → (H.uriBuild (some s) a (some p)).isSome = true
  /-- an authority alone (the target of a plain CONNECT, RFC 9114 §4.4: neither `:scheme` nor `:path`)
      builds too: `Uri::builder().authority(a).build()` is the authority-form URI -/
  uri_builds_authority : ∀ a, H.parseAuthority a = some a → (H.uriBuild none a none).isSome = true

end H3.E2E
