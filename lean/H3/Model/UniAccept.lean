import H3.Model.Varint
import H3.Model.FrameStream
import H3.Gen.Consts
/-! Model of `AcceptRecvStream::{poll_next_varint, poll_type, into_stream}` (`h3/src/stream.rs`):
    resolution of the type (and push id / WebTransport session id) of one incoming
    unidirectional stream.

    The buffer is the flattened `BufList` (`VarInt::decode` reads through chunk boundaries; chunks
    are non-empty, R-T).  The transport is a script of answers to successive `poll_data` calls as
    in `H3.FS.Ev`: `chunk bs | pend | fin | reset c`; an exhausted script answers `Pending`; the
    end of the stream (FIN or RESET) is sticky: every later `poll_data` answers it again.

    `poll_next_varint` first looks at the bytes it already has, then at whether the stream has
    stopped, and only then asks the transport; `expected` (the length announced by the first
    byte) is cleared once the integer has been taken out of the buffer. -/
namespace H3.UniAccept
open H3.Varint H3.Gen.Consts

abbrev Ev := H3.FS.Ev

/-- how the transport said the stream ended -/
inductive End where
  | fin | reset (c : Nat)
deriving Repr, DecidableEq

structure St where
  /-- `BufRecvStream.buf`, flattened -/
  buf : Bytes := []
  /-- the transport has answered end-of-stream / reset (`BufRecvStream.eos` for `fin`) -/
  ended : Option End := none
  /-- `AcceptRecvStream.expected` -/
  expected : Option Nat := none
  /-- `AcceptRecvStream.ty` (the raw value of `StreamType`) -/
  ty : Option Nat := none
  /-- `AcceptRecvStream.id`: push id or session id -/
  id : Option Nat := none
deriving Repr, DecidableEq

/-- result of one `poll_next_varint` -/
inductive VRes where
  | ok (v : Nat)
  | pending
  /-- `PollTypeError::EndOfStream` -/
  | ended
  /-- `PollTypeError::InternalError(H3_INTERNAL_ERROR, "Unexpected end parsing varint")` -/
  | internal
deriving Repr, DecidableEq

/-- `if self.expected.is_none() && buf.remaining() >= 1 { self.expected = Some(encoded_size(buf.chunk()[0])) }` -/
def announce (s : St) : Option Nat :=
  match s.expected with
  | some e => some e
  | none =>
    match s.buf with
    | [] => none
    | b0 :: _ => some (encodedSize b0)

/-- the part of the loop body that works on the buffered bytes: `none` = not enough yet. -/
def tryBuf (s : St) : Option VRes × St :=
  match announce s with
  | none => (none, s)
  | some e =>
    if s.buf.length < e then (none, { s with expected := some e })
    else
      match Varint.decode s.buf with
      | .ok v rest => (some (.ok v), { s with buf := rest, expected := none })
      | .endOf _ => (some .internal, { s with expected := none })

/-- `poll_next_varint` against a transport script. -/
def pollVarint : St → List Ev → VRes × St × List Ev
  | s, script =>
    match tryBuf s with
    | (some r, s1) => (r, s1, script)
    | (none, s1) =>
      match s1.ended with
      | some _ =>
        -- `poll_read` answers the end again; nothing new in the buffer; `stream_stopped` is set
        (.ended, s1, script)
      | none =>
        match script with
        | [] => (.pending, s1, [])
        | .pend :: r => (.pending, s1, r)
        | .chunk b :: r => pollVarint { s1 with buf := s1.buf ++ b } r
        | .fin :: r => pollVarint { s1 with ended := some .fin } r
        | .reset c :: r => pollVarint { s1 with ended := some (.reset c) } r

/-- result of one `poll_type` -/
inductive TRes where
  | ready | pending | ended | internal
deriving Repr, DecidableEq

/-- `matches!(self.ty, Some(StreamType::PUSH | StreamType::WEBTRANSPORT_UNI))` -/
def needsId (ty : Nat) : Bool := ty == STREAM_PUSH || ty == STREAM_WEBTRANSPORT_UNI

def wantsId (s : St) : Bool :=
  match s.ty with
  | some ty => needsId ty && s.id.isNone
  | none => false

/-- second half of `poll_type`: the push id / session id -/
def pollId (s : St) (script : List Ev) : TRes × St × List Ev :=
  if wantsId s then
    match pollVarint s script with
    | (.ok v, s1, r) => (.ready, { s1 with id := some v }, r)
    | (.pending, s1, r) => (.pending, s1, r)
    | (.ended, s1, r) => (.ended, s1, r)
    | (.internal, s1, r) => (.internal, s1, r)
  else (.ready, s, script)

/-- `AcceptRecvStream::poll_type` -/
def pollType (s : St) (script : List Ev) : TRes × St × List Ev :=
  match s.ty with
  | some _ => pollId s script
  | none =>
    match pollVarint s script with
    | (.ok v, s1, r) => pollId { s1 with ty := some v } r
    | (.pending, s1, r) => (.pending, s1, r)
    | (.ended, s1, r) => (.ended, s1, r)
    | (.internal, s1, r) => (.internal, s1, r)

/-- `AcceptedRecvStream` (what `into_stream` builds) -/
inductive Kind where
  | control
  | push
  | encoder
  | decoder
  | wtUni (session : Nat)
  | unknown (ty : Nat)
deriving Repr, DecidableEq

/-- `AcceptRecvStream::into_stream`; `none` = one of its two `expect`s panics. -/
def intoStream (s : St) : Option Kind :=
  match s.ty with
  | none => none
  | some ty =>
    if ty = STREAM_CONTROL then some .control
    else if ty = STREAM_PUSH then some .push
    else if ty = STREAM_ENCODER then some .encoder
    else if ty = STREAM_DECODER then some .decoder
    else if ty = STREAM_WEBTRANSPORT_UNI then
      match s.id with
      | some i => some (.wtUni i)
      | none => none
    else some (.unknown ty)

/-- what the owner of the stream sees in the end -/
inductive Outcome where
  /-- `poll_type` answered `Ready(Ok)`: state (with `ty`, `id`, the bytes behind the header still
      in `buf`) and the part of the script not yet consumed -/
  | resolved (s : St) (rest : List Ev)
  /-- `EndOfStream`: the stream is removed, no error -/
  | dropped
  /-- connection error H3_INTERNAL_ERROR -/
  | internal
  /-- still `Pending` when the script is exhausted -/
  | waiting (s : St)
deriving Repr, DecidableEq

/-- `poll_type` is called again while it answers `Pending` and the transport has more to say
    (every `pend` in the script ends one call).  `script.length + 1` is enough fuel. -/
def resolve : Nat → St → List Ev → Outcome
  | 0, s, _ => .waiting s
  | fuel+1, s, script =>
    match pollType s script with
    | (.ready, s1, r) => .resolved s1 r
    | (.ended, _, _) => .dropped
    | (.internal, _, _) => .internal
    | (.pending, s1, r) => if script.isEmpty then .waiting s1 else resolve fuel s1 r

/-! ### The code before the repair of D-04b, kept for the negative witnesses only

`expected` survived a successful decode and the transport was polled before the buffered bytes
were looked at. -/

def tryBufOld (s : St) : Option VRes × St :=
  match announce s with
  | none => (none, s)
  | some e =>
    if s.buf.length < e then (none, { s with expected := some e })
    else
      match Varint.decode s.buf with
      | .ok v rest => (some (.ok v), { s with buf := rest, expected := some e })
      | .endOf _ => (some .internal, { s with expected := some e })

/-- one round of the old loop after `poll_read` has answered -/
def afterReadOld (s : St) (stopped : Bool) : Option VRes × St :=
  match tryBufOld s with
  | (some r, s1) => (some r, s1)
  | (none, s1) => if stopped then (some .ended, s1) else (none, s1)

def pollVarintOld : St → List Ev → VRes × St × List Ev
  | s, script =>
    match s.ended with
    | some _ =>
      match afterReadOld s true with
      | (some r, s1) => (r, s1, script)
      | (none, s1) => (.ended, s1, script)
    | none =>
      match script with
      | [] => (.pending, s, [])
      | .pend :: r => (.pending, s, r)
      | .chunk b :: r =>
        match afterReadOld { s with buf := s.buf ++ b } false with
        | (some x, s1) => (x, s1, r)
        | (none, s1) => pollVarintOld s1 r
      | .fin :: r =>
        match afterReadOld { s with ended := some .fin } true with
        | (some x, s1) => (x, s1, r)
        | (none, s1) => (.ended, s1, r)
      | .reset c :: r =>
        match afterReadOld { s with ended := some (.reset c) } true with
        | (some x, s1) => (x, s1, r)
        | (none, s1) => (.ended, s1, r)

end H3.UniAccept
