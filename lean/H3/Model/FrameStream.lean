import H3.Model.Frame
/-! Model of `FrameStream::{poll_next,poll_data}` + `FrameDecoder::decode` (`h3/src/frame.rs`),
    `BufRecvStream::poll_read` (`h3/src/stream.rs`) and the `BufList` operations they use
    (`h3/src/buf.rs`).

    The machine is generic in the frame decoder `D` (so that the simulation proof can be done
    once against three laws of the decoder); `frameDec` instantiates it with `Frame.decode`.

    A *transport script* is the list of answers the QUIC receive stream gives to successive
    `poll_data` calls: a non-empty chunk, `Pending`, end of stream, or a reset.  An exhausted
    script answers `Pending`.  "For every chunking / schedule" = "for every script". -/
namespace H3.FS

abbrev Bytes := List Nat

def USIZE_MAX : Nat := 2^64 - 1

inductive DecRes (F E : Type) where
  | frame (f : F) (n : Nat)
  | unknown (n : Nat)
  | incomplete (m : Nat)
  | error (e : E)
deriving Repr

/-- what a decoded frame means for the bytes that follow it -/
inductive Kind where
  /-- nothing: the next byte starts a new frame -/
  | plain
  /-- DATA: `len` payload bytes follow, handed out by `poll_data` -/
  | data (len : Nat)
  /-- WebTransport bidi header: the rest of the stream is payload -/
  | raw
deriving Repr, DecidableEq

structure Dec (F E : Type) where
  dec : Bytes → DecRes F E
  kind : F → Kind

inductive Ev where
  | chunk (b : Bytes) | pend | fin | reset (c : Nat)
deriving Repr, DecidableEq

structure St where
  /-- `BufList`: queue of non-empty chunks -/
  buf : List Bytes := []
  /-- `BufRecvStream.eos` -/
  eos : Bool := false
  /-- `FrameDecoder.expected` -/
  expected : Option Nat := none
  /-- `FrameStream.remaining_data` -/
  remaining : Nat := 0
deriving Repr, DecidableEq

def St.flat (s : St) : Bytes := s.buf.flatten

/-- `BufList::advance` -/
def advance : Nat → List Bytes → List Bytes
  | 0, bs => bs
  | _, [] => []
  | n+1, c :: cs =>
    if c.length ≤ n+1 then advance (n+1 - c.length) cs else (c.drop (n+1)) :: cs
termination_by n bs => bs.length

/-- `BufList::take_chunk` -/
def takeChunk (max : Nat) : List Bytes → Option Bytes × List Bytes
  | [] => (none, [])
  | c :: cs =>
    let k := min max c.length
    (some (c.take k), if k = c.length then cs else c.drop k :: cs)

inductive Out (F E : Type) where
  | frame (f : F)
  | data (b : Bytes)
  | none
  | pending
  | errProto (e : E)
  /-- `FrameStreamError::UnexpectedEnd` -/
  | errEnd
  /-- `FrameStreamError::Quic(StreamTerminated{c})` -/
  | errQuic (c : Nat)
  /-- the `assert!(remaining_data == 0)` of `poll_next` -/
  | panic
deriving Repr

inductive DL (F E : Type) where
  | none (drop : Nat) (exp : Option Nat)
  | frame (drop : Nat) (f : F)
  /-- `exp` = the memo as the loop left it (`None` once an unknown frame was skipped) -/
  | error (drop : Nat) (exp : Option Nat) (e : E)

/-- `if let Some(min) = self.expected { if src.remaining() < min { return Ok(None) } }` -/
def expBlocks (exp : Option Nat) (len : Nat) : Bool :=
  match exp with
  | some m => decide (len < m)
  | none => false

/-- `FrameDecoder::decode` on the flattened buffer; returns how many bytes to drop.
    Fuel: every `continue` skips an unknown frame of ≥ 2 bytes; `flat.length + 1` suffices. -/
def decLoop {F E} (D : Dec F E) : Nat → Bytes → Option Nat → Nat → DL F E
  | 0, _, exp, dropped => .none dropped exp
  | fuel+1, flat, exp, dropped =>
    if flat = [] then .none dropped exp
    else if expBlocks exp flat.length then .none dropped exp
    else match D.dec flat with
      | .unknown n => decLoop D fuel (flat.drop n) none (dropped + n)
      | .incomplete m => .none dropped (some m)
      | .frame f n => .frame (dropped + n) f
      | .error e => .error dropped exp e

variable {F E : Type}

def St.push (s : St) (b : Bytes) : St := { s with buf := s.buf ++ [b] }

def St.applyKind (s : St) (k : Kind) : St :=
  match k with
  | .plain => { s with remaining := 0 }
  | .data n => { s with remaining := n }
  | .raw => { s with remaining := USIZE_MAX }

/-- answer of `try_recv` -/
inductive End where
  | more | pending | eos
deriving DecidableEq

/-- decode step shared by all branches of `poll_next` once `try_recv` has answered `e`.
Returns `none` when the loop must `continue`. -/
def afterRecv (D : Dec F E) (s : St) (e : End) : Option (Out F E × St) :=
  match decLoop D (s.flat.length + 1) s.flat s.expected 0 with
  | .frame d f =>
    some (.frame f, ({ s with buf := advance d s.buf, expected := none }).applyKind (D.kind f))
  | .error d exp e' => some (.errProto e', { s with buf := advance d s.buf, expected := exp })
  | .none d exp =>
    let s' := { s with buf := advance d s.buf, expected := exp }
    match e with
    | .more => none
    | .pending => some (.pending, s')
    | .eos => if s'.flat = [] then some (.none, s') else some (.errEnd, s')

/-- the loop of `FrameStream::poll_next` against a transport script. -/
def pollNextLoop (D : Dec F E) : St → List Ev → Out F E × St × List Ev
  | s, script =>
    if s.eos then
      match afterRecv D s .eos with
      | some (o, s') => (o, s', script)
      | none => (.pending, s, script) -- unreachable
    else match script with
      | [] => match afterRecv D s .pending with
        | some (o, s') => (o, s', [])
        | none => (.pending, s, [])
      | .pend :: r => match afterRecv D s .pending with
        | some (o, s') => (o, s', r)
        | none => (.pending, s, r)
      | .fin :: r => match afterRecv D { s with eos := true } .eos with
        | some (o, s') => (o, s', r)
        | none => (.pending, s, r)
      | .reset c :: r => (.errQuic c, s, .reset c :: r)
      | .chunk b :: r =>
        let s1 := s.push b
        match afterRecv D s1 .more with
        | some (o, s') => (o, s', r)
        | none =>
          match decLoop D (s1.flat.length + 1) s1.flat s1.expected 0 with
          | .none d exp => pollNextLoop D { s1 with buf := advance d s1.buf, expected := exp } r
          | _ => (.pending, s1, r) -- unreachable

/-- `FrameStream::poll_next`. -/
def pollNext (D : Dec F E) (s : St) (script : List Ev) : Out F E × St × List Ev :=
  if s.remaining ≠ 0 then (.panic, s, script) else pollNextLoop D s script

/-- `try_recv` as used by `poll_data` (`Pending` is treated as "not at the end"):
    `none` = a transport error to return. -/
def recvForData (s : St) (script : List Ev) : Except Nat (Bool × St × List Ev) :=
  if s.eos then .ok (true, s, script)
  else match script with
    | [] => .ok (false, s, [])
    | .pend :: r => .ok (false, s, r)
    | .fin :: r => .ok (true, { s with eos := true }, r)
    | .reset c :: _ => .error c
    | .chunk b :: r => .ok (false, s.push b, r)

/-- `FrameStream::poll_data`. -/
def pollData (s : St) (script : List Ev) : Out F E × St × List Ev :=
  if s.remaining = 0 then (.none, s, script)
  else match recvForData s script with
    | .error c => (.errQuic c, s, script)
    | .ok (e, s1, r) =>
      match takeChunk s1.remaining s1.buf with
      | (none, _) =>
        if e then
          (if s1.remaining ≠ USIZE_MAX then (.errEnd, s1, r) else (.none, s1, r))
        else (.pending, s1, r)
      | (some d, buf') =>
        if e && decide (d.length < s1.remaining) && buf'.isEmpty then (.errEnd, { s1 with buf := buf' }, r)
        else (.data d, { s1 with buf := buf', remaining := s1.remaining - d.length }, r)

/-! ### Instantiation with `Frame.decode` -/

def frameKind : H3.Frame.Frame → Kind
  | .data n => .data n
  | .webTransport _ => .raw
  | _ => .plain

def liftRes : H3.Frame.DecRes → DecRes H3.Frame.Frame H3.Frame.FrameErr
  | .frame f n => .frame f n
  | .unknown n => .unknown n
  | .incomplete m => .incomplete m
  | .error e => .error e

def frameDec : Dec H3.Frame.Frame H3.Frame.FrameErr :=
  { dec := fun b => liftRes (H3.Frame.decode b), kind := frameKind }

inductive Call where
  | next | data
deriving Repr, DecidableEq

abbrev FOut := Out H3.Frame.Frame H3.Frame.FrameErr

/-- run a sequence of API calls; stops after a terminal answer of `poll_next`
    (`None` or an error) or any error. -/
def runCalls : St → List Ev → List Call → List FOut
  | _, _, [] => []
  | s, script, c :: cs =>
    match c with
    | .next =>
      let (o, s', r) := pollNext frameDec s script
      match o with
      | .frame _ => o :: runCalls s' r cs
      | .pending => o :: runCalls s' r cs
      | _ => [o]
    | .data =>
      let (o, s', r) := pollData (F := H3.Frame.Frame) (E := H3.Frame.FrameErr) s script
      match o with
      | .data _ => o :: runCalls s' r cs
      | .pending => o :: runCalls s' r cs
      | .none => o :: runCalls s' r cs
      | _ => [o]

/-- the documented reader loop: `poll_next`; after a frame with payload, `poll_data` until it
    answers `None`; repeat.  `Pending` answers are retried while the script still has events.
    Fuel bounds the number of calls (the driver passes enough). -/
def readerLoop : Nat → St → List Ev → List FOut
  | 0, _, _ => []
  | fuel+1, s, script =>
    if s.remaining ≠ 0 then
      let (o, s', r) := pollData (F := H3.Frame.Frame) (E := H3.Frame.FrameErr) s script
      match o with
      | .data _ => o :: readerLoop fuel s' r
      | .pending => if script.isEmpty then [o] else readerLoop fuel s' r
      | _ => [o]
    else
      let (o, s', r) := pollNext frameDec s script
      match o with
      | .frame _ => o :: readerLoop fuel s' r
      | .pending => if script.isEmpty then [o] else readerLoop fuel s' r
      | _ => [o]

/-! ### `split()`, and the frame layer as a request-body reader drives it (second round)

`FrameStream::split` (`h3/src/frame.rs`) hands the receive half the same `FrameDecoder` (the
`expected` memo) and the same `remaining_data`; `BufRecvStream::split` (`h3/src/stream.rs`) hands it
the buffered chunks and the end-of-stream flag.  The send half starts empty and never reads.  So on
the four components of the frame-layer state `split` is the identity — that is what the model says,
and what the differential run checks against the real `RequestStream::split`. -/

/-- the receive half after `split()` -/
def St.split (s : St) : St :=
  { buf := s.buf, eos := s.eos, expected := s.expected, remaining := s.remaining }

/-- call letters `n`, `d`, `s` -/
inductive CallS where
  | next | data | split
deriving Repr, DecidableEq

/-- a call sequence without its `split`s -/
def CallS.erase : List CallS → List Call
  | [] => []
  | .next :: r => .next :: CallS.erase r
  | .data :: r => .data :: CallS.erase r
  | .split :: r => CallS.erase r

/-- `runCalls` with `split()` anywhere between the calls (the calls go on on the receive half) -/
def runCallsS : St → List Ev → List CallS → List FOut
  | _, _, [] => []
  | s, script, c :: cs =>
    match c with
    | .split => runCallsS s.split script cs
    | .next =>
      let (o, s', r) := pollNext frameDec s script
      match o with
      | .frame _ => o :: runCallsS s' r cs
      | .pending => o :: runCallsS s' r cs
      | _ => [o]
    | .data =>
      let (o, s', r) := pollData (F := H3.Frame.Frame) (E := H3.Frame.FrameErr) s script
      match o with
      | .data _ => o :: runCallsS s' r cs
      | .pending => o :: runCallsS s' r cs
      | .none => o :: runCallsS s' r cs
      | _ => [o]

/-- result of one `poll_recv_data`: the answer, the answers of the frame-layer calls behind it
    (`raw`, in order), the state and the rest of the script afterwards -/
structure Recv where
  out : FOut
  raw : List FOut
  st : St
  script : List Ev
deriving Repr

/-- `RequestStream::poll_recv_data` (`h3/src/connection.rs`), the part that drives the frame layer:
    `while !self.stream.has_data() { match ready!(poll_next) … }` then `poll_data`.  A DATA frame header
    lets the loop go on (an empty DATA frame is not the end of the body), a HEADERS frame ends the
    body (`Ok(None)`, the block is kept for `recv_trailers`), any other frame is answered as it is
    (`.frame f`: the caller closes the connection with H3_FRAME_UNEXPECTED), everything else
    (`None`, `Pending`, an error) is passed on.  Fuel: every turn of the loop consumes a frame header. -/
def recvData : Nat → St → List Ev → Recv
  | 0, s, sc => ⟨.pending, [], s, sc⟩
  | fuel+1, s, sc =>
    if s.remaining ≠ 0 then
      match pollData (F := H3.Frame.Frame) (E := H3.Frame.FrameErr) s sc with
      | (o, s', r) => ⟨o, [o], s', r⟩
    else
      match pollNext frameDec s sc with
      | (.frame (.data n), s', r) =>
        let x := recvData fuel s' r
        { x with raw := .frame (.data n) :: x.raw }
      | (.frame (.headers p), s', r) => ⟨.none, [.frame (.headers p)], s', r⟩
      | (o, s', r) => ⟨o, [o], s', r⟩

def scriptLen : List Ev → Nat
  | [] => 0
  | .chunk b :: r => b.length + scriptLen r
  | _ :: r => scriptLen r

/-- enough fuel for `recvData`: every frame header has at least two bytes -/
def recvFuel (s : St) (sc : List Ev) : Nat := s.flat.length + scriptLen sc + 2

/-- call letters `r`, `s` -/
inductive CallR where
  | recv | split
deriving Repr, DecidableEq

structure RRun where
  /-- the answers of the `poll_recv_data` calls -/
  outs : List FOut
  /-- the answers of all frame-layer calls behind them -/
  raw : List FOut
  st : St
  script : List Ev
  /-- a call has given a terminal answer (end of the body or an error); later calls are not made -/
  ended : Bool
deriving Repr

/-- a request-body reader: `poll_recv_data` again and again (until the end of the body or an
    error), with `split()` anywhere in between -/
def runR : St → List Ev → List CallR → RRun
  | s, sc, [] => ⟨[], [], s, sc, false⟩
  | s, sc, c :: cs =>
    match c with
    | .split => runR s.split sc cs
    | .recv =>
      let x := recvData (recvFuel s sc) s sc
      match x.out with
      | .data _ =>
        let y := runR x.st x.script cs
        { y with outs := x.out :: y.outs, raw := x.raw ++ y.raw }
      | .pending =>
        let y := runR x.st x.script cs
        { y with outs := x.out :: y.outs, raw := x.raw ++ y.raw }
      | _ => ⟨[x.out], x.raw, x.st, x.script, true⟩

end H3.FS
