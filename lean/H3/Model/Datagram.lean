import H3.Model.Varint
/-! Model of `h3-datagram/src/datagram.rs`: `Datagram::{new,encode,decode}` and the `Buf`
    implementation of `EncodedDatagram` (payload: one contiguous byte string `Enc`, or any list of
    non-empty chunks `EncM` - a non-contiguous `Buf` such as `Chain` / `BufList`); the error arms of
    `DatagramSender::send_datagram` (`datagram_handler.rs`) and what the connection makes of them. -/
namespace H3.Datagram
open H3.Varint

/-- `EncodedDatagram`: 8-byte header array, `len`, `pos`, payload. -/
structure Enc where
  hdr : Bytes
  len : Nat
  pos : Nat
  payload : Bytes
deriving Repr, DecidableEq

/-- `Datagram::new` asserts `stream_id % 4 == 0` (`none` = the assertion fires). -/
def new (sid : Nat) (p : Bytes) : Option (Nat × Bytes) :=
  if sid % 4 = 0 then some (sid, p) else none

/-- writing `bs` into the zeroed array `[0; 8]`. -/
def intoArray (bs : Bytes) : Bytes := bs ++ List.replicate (8 - bs.length) 0

/-- `Datagram::encode`: the header array holds the varint of `stream_id / 4`. -/
def encode (sid : Nat) (p : Bytes) : Enc :=
  { hdr := intoArray (Varint.encode (sid / 4)), len := Varint.size (sid / 4), pos := 0, payload := p }

/-- `Buf::remaining`. -/
def Enc.remaining (e : Enc) : Nat := e.len - e.pos + e.payload.length

/-- `Buf::chunk`. -/
def Enc.chunk (e : Enc) : Bytes :=
  if e.len - e.pos > 0 then (e.hdr.take e.len).drop e.pos else e.payload

/-- `Buf::advance` (the payload's own `advance` panics beyond its end; callers respect
    `cnt ≤ remaining`, which the theorems assume). -/
def Enc.advance (e : Enc) (cnt : Nat) : Enc :=
  let rh := e.len - e.pos
  if rh > 0 then
    let a := min cnt rh
    { e with pos := e.pos + a, payload := e.payload.drop (cnt - a) }
  else { e with payload := e.payload.drop cnt }

/-- Abstract content of the buffer: what is still to be yielded. -/
def Enc.view (e : Enc) : Bytes := (e.hdr.take e.len).drop e.pos ++ e.payload

inductive DecRes where
  | ok (sid : Nat) (payload : Bytes)
  /-- `H3_DATAGRAM_ERROR` -/
  | datagramError
deriving Repr, DecidableEq

/-- `Datagram::decode`. -/
def decode (bs : Bytes) : DecRes :=
  match Varint.decode bs with
  | .endOf _ => .datagramError
  | .ok q rest => if q * 4 > 2^62 - 1 then .datagramError else .ok (q * 4) rest

/-- A consumer of a `Buf`: repeatedly look at `chunk`, take `k` bytes of it, `advance k`. -/
def consume : Enc → List Nat → Bytes
  | _, [] => []
  | e, k :: ks => (e.chunk.take k) ++ consume (e.advance (min k e.chunk.length)) ks

/-! ### a payload `Buf` of several chunks -/

/-- the payload `Buf`'s own `advance` on a list of non-empty chunks (a chunk that is used up is dropped). -/
def advChunks : List Bytes → Nat → List Bytes
  | [], _ => []
  | c :: cs, k => if k < c.length then c.drop k :: cs else advChunks cs (k - c.length)

/-- `EncodedDatagram<B>` over a multi-chunk `B`. -/
structure EncM where
  hdr : Bytes
  len : Nat
  pos : Nat
  payload : List Bytes
deriving Repr, DecidableEq

def encodeM (sid : Nat) (cs : List Bytes) : EncM :=
  { hdr := intoArray (Varint.encode (sid / 4)), len := Varint.size (sid / 4), pos := 0, payload := cs }

/-- `Buf::remaining`: the header bytes left plus the payload's `remaining()` (ALL its chunks). -/
def EncM.remaining (e : EncM) : Nat := e.len - e.pos + e.payload.flatten.length

/-- `Buf::chunk`: the rest of the header, then the payload's current chunk. -/
def EncM.chunk (e : EncM) : Bytes :=
  if e.len - e.pos > 0 then (e.hdr.take e.len).drop e.pos else e.payload.headD []

def EncM.advance (e : EncM) (cnt : Nat) : EncM :=
  let rh := e.len - e.pos
  if rh > 0 then
    let a := min cnt rh
    { e with pos := e.pos + a, payload := advChunks e.payload (cnt - a) }
  else { e with payload := advChunks e.payload cnt }

def EncM.view (e : EncM) : Bytes := (e.hdr.take e.len).drop e.pos ++ e.payload.flatten

def consumeM : EncM → List Nat → Bytes
  | _, [] => []
  | e, k :: ks => (e.chunk.take k) ++ consumeM (e.advance (min k e.chunk.length)) ks

/-- `copy_to_bytes(remaining())` / `put(buf)`: chunk after chunk to the end (fuel = bytes left + 1). -/
def drainM : Nat → EncM → Bytes
  | 0, _ => []
  | f + 1, e => if e.chunk.isEmpty then [] else e.chunk ++ drainM f (e.advance e.chunk.length)

/-! ### `DatagramSender::send_datagram`: the error arms -/

/-- `h3::quic::ConnectionErrorIncoming`. -/
inductive CE where
  | app (code : Nat) | timeout | internal | undefined
deriving Repr, DecidableEq

/-- `SendDatagramErrorIncoming`: what the transport answers. -/
inductive SendIn where
  | notAvailable | tooLarge | conn (e : CE)
deriving Repr, DecidableEq

/-- `h3::error::ConnectionError` as far as it occurs here. -/
inductive ConnErr where
  | remote (e : CE) | timeout | local_ (code : Nat)
deriving Repr, DecidableEq

/-- `SendDatagramError`: what the caller is told. -/
inductive SendErr where
  | notAvailable | tooLarge | conn (e : ConnErr)
deriving Repr, DecidableEq

/-- `ErrorOrigin`: the first error stored in the shared state. -/
inductive Origin where
  | quic (e : CE) | internal (code : Nat)
deriving Repr, DecidableEq

/-- h3's `convert_to_connection_error`: what the driver and every stream handle report for the stored error. -/
def convertOrigin : Origin → ConnErr
  | .internal c => .local_ c
  | .quic .timeout => .timeout
  | .quic e => .remote e

/-- `set_conn_error` (`OnceLock::get_or_init`): the error in the cell after a handle has offered `o` - the first
    error stays. -/
def cellAfter (cell : Option Origin) (o : Origin) : Origin := cell.getD o

/-- what the `ConnectionError` arm of `handle_send_datagram_error` answers (read from the tree:
    `H3.Gen.DgSendArms.connArm`, tied to this model by `Lemmas/GenAgreeDgSend.lean`) -/
inductive ConnArm where
  /-- `self.handle_quic_stream_error(ConnectionErrorIncoming { connection_error })`, the function every other handle
      uses: the error goes to `set_conn_error_and_wake`, the answer is `convert_to_connection_error` of what that
      call returns (the error that IS in the cell) -/
  | cellWinner
  /-- (before the repair of D-05g / D-18b) `set_conn_error_and_wake(error)` with its result dropped, answer
      `ConnectionError::Remote(error)` -/
  | ownRemote
deriving Repr, DecidableEq

/-- `handle_send_datagram_error` with `cell` = the connection's error cell before the call: the answer and the error
    handed to `set_conn_error_and_wake` (if any).  The `ConnectionError` arm goes through `handle_quic_stream_error`
    like every other handle: it offers the transport's error to the cell and answers the cell's winner, converted
    by the common conversion. -/
def handleSendError (cell : Option Origin) : SendIn → SendErr × Option CE
  | .notAvailable => (.notAvailable, none)
  | .tooLarge => (.tooLarge, none)
  | .conn e => (.conn (convertOrigin (cellAfter cell (.quic e))), some e)

/-- the arm of the tree this model follows -/
def connArm : ConnArm := .cellWinner

/-- the same function for either shape of the arm (used by the agreement lemma only) -/
def handleSendErrorBy (arm : ConnArm) (cell : Option Origin) : SendIn → SendErr × Option CE
  | .notAvailable => (.notAvailable, none)
  | .tooLarge => (.tooLarge, none)
  | .conn e => match arm with
    | .cellWinner => (.conn (convertOrigin (cellAfter cell (.quic e))), some e)
    | .ownRemote => (.conn (.remote e), some e)

/-- `close_if_needed`: the code h3 closes the connection with when the driver meets the stored error. -/
def closeCode : Origin → Option Nat
  | .internal c => some c
  | .quic .internal => some 0x102
  | .quic _ => none

end H3.Datagram
