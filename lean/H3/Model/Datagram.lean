import H3.Model.Varint
/-! Model of `h3-datagram/src/datagram.rs`: `Datagram::{new,encode,decode}` and the `Buf`
    implementation of `EncodedDatagram` (payload modelled as one contiguous byte string). -/
namespace H3.Datagram
open H3.Varint

/-- `EncodedDatagram`: 8-byte header array, `len`, `pos`, payload. -/
structure Enc where
  hdr : Bytes
  len : Nat
  pos : Nat
  payload : Bytes
deriving Repr, DecidableEq

/-- `Datagram::new` asserts `stream_id % 4 == 0` (`none` = the assertion fires). -/
def new (sid : Nat) (p : Bytes) : Option (Nat × Bytes) :=
  if sid % 4 = 0 then some (sid, p) else none

/-- writing `bs` into the zeroed array `[0; 8]`. -/
def intoArray (bs : Bytes) : Bytes := bs ++ List.replicate (8 - bs.length) 0

/-- `Datagram::encode`: the header array holds the varint of `stream_id / 4`. -/
def encode (sid : Nat) (p : Bytes) : Enc :=
  { hdr := intoArray (Varint.encode (sid / 4)), len := Varint.size (sid / 4), pos := 0, payload := p }

/-- `Buf::remaining`. -/
def Enc.remaining (e : Enc) : Nat := e.len - e.pos + e.payload.length

/-- `Buf::chunk`. -/
def Enc.chunk (e : Enc) : Bytes :=
  if e.len - e.pos > 0 then (e.hdr.take e.len).drop e.pos else e.payload

/-- `Buf::advance` (the payload's own `advance` panics beyond its end; callers respect
    `cnt ≤ remaining`, which the theorems assume). -/
def Enc.advance (e : Enc) (cnt : Nat) : Enc :=
  let rh := e.len - e.pos
  if rh > 0 then
    let a := min cnt rh
    { e with pos := e.pos + a, payload := e.payload.drop (cnt - a) }
  else { e with payload := e.payload.drop cnt }

/-- Abstract content of the buffer: what is still to be yielded. -/
def Enc.view (e : Enc) : Bytes := (e.hdr.take e.len).drop e.pos ++ e.payload

inductive DecRes where
  | ok (sid : Nat) (payload : Bytes)
  /-- `H3_DATAGRAM_ERROR` -/
  | datagramError
deriving Repr, DecidableEq

/-- `Datagram::decode`. -/
def decode (bs : Bytes) : DecRes :=
  match Varint.decode bs with
  | .endOf _ => .datagramError
  | .ok q rest => if q * 4 > 2^62 - 1 then .datagramError else .ok (q * 4) rest

/-- A consumer of a `Buf`: repeatedly look at `chunk`, take `k` bytes of it, `advance k`. -/
def consume : Enc → List Nat → Bytes
  | _, [] => []
  | e, k :: ks => (e.chunk.take k) ++ consume (e.advance (min k e.chunk.length)) ks

end H3.Datagram
