import H3.Model.PrefixInt
import H3.Model.PrefixString
import H3.Gen.StaticTable
import H3.Gen.Field
import H3.Gen.Consts
/-! Model of the *stateless* QPACK paths of `h3/src/qpack`: `static_.rs` (`StaticTable::{get,
    find,find_name}` over the generated tables), `field.rs` (`HeaderField::mem_size`), `block.rs`
    (`HeaderBlockField::decode`, `HeaderPrefix`, `Indexed`, `IndexedWithPostBase`,
    `LiteralWithNameRef`, `LiteralWithPostBaseNameRef`, `Literal`), `encoder.rs`
    (`encode_stateless`) and `decoder.rs` (`decode_stateless`, with the conversions
    `ParseError → DecoderError`).

    Bytes are `Nat`s (`< 256` for well-formed input).  `u8` masks are written arithmetically
    (`first & 0b1111_0000 == 0b0001_0000` is `first / 16 % 16 = 1` for a byte, and so on).
    `usize`/`u64` values are `Nat`s; the `> usize::MAX` checks of `block.rs` are kept (64-bit
    `usize`), the running `mem_size` (`u64`) comes with the no-wrap bound
    `C10_recv_exact`/`decodeLoop_size_le` (it never exceeds `272 · |input|`).

    D-15 (Huffman laxity, not repaired) is inherited from `H3.Huffman`: every decoder that reads
    a string literal also returns the ghost flag `Huffman.lax payload` (not in the code); the
    flag of a whole field section is the disjunction over the string literals decoded. -/
namespace H3.Qpack
open H3.Gen.Field (ESTIMATED_OVERHEAD_BYTES)

abbrev Bytes := List Nat

/-! ### field.rs -/

/-- `HeaderField { name, value }` -/
structure Field where
  name : Bytes
  value : Bytes
deriving Repr, DecidableEq

/-- `HeaderField::mem_size` -/
def Field.memSize (f : Field) : Nat := f.name.length + f.value.length + ESTIMATED_OVERHEAD_BYTES

/-- `HeaderField::with_value` -/
def Field.withValue (f : Field) (v : Bytes) : Field := { name := f.name, value := v }

/-! ### static_.rs -/

namespace StaticTable
open H3.Gen.StaticTable (table findArms findNameArms)

/-- `StaticTable::get(index)`: `PREDEFINED_HEADERS.get(index)`; `none` is `Err(Unknown(index))`. -/
def get (i : Nat) : Option Field :=
  match table[i]? with
  | some (n, v) => some ⟨n, v⟩
  | none => none

/-- the arms of the `match` in `find`, tried in source order (Rust takes the first that matches) -/
def findGo : List ((Bytes × Bytes) × Nat) → Bytes → Bytes → Option Nat
  | [], _, _ => none
  | ((n, v), i) :: r, name, value => if n = name ∧ v = value then some i else findGo r name value

/-- `StaticTable::find(field)` -/
def find (f : Field) : Option Nat := findGo findArms f.name f.value

def findNameGo : List (Bytes × Nat) → Bytes → Option Nat
  | [], _ => none
  | (n, i) :: r, name => if n = name then some i else findNameGo r name

/-- `StaticTable::find_name(name)` -/
def findName (name : Bytes) : Option Nat := findNameGo findNameArms name

end StaticTable

/-! ### parse_error.rs, and `DecoderError` as far as the stateless path produces it -/

/-- `prefix_int::Error` -/
inductive IntErr where
  | overflow
  | unexpectedEnd
deriving Repr, DecidableEq

/-- `ParseError` -/
inductive ParseError where
  | integer (e : IntErr)
  /-- `ParseError::String(prefix_string::Error)` (`From<prefix_string::Error>`) -/
  | string (e : PrefixString.ErrKind)
  | invalidPrefix (p : Nat)
  | invalidBase (b : Int)
deriving Repr, DecidableEq

/-- `DecoderError`; the variants `InvalidIndex`, `DynamicTable`, `UnexpectedEnd`, `BufSize` are
    not produced by `decode_stateless` (every integer/string error reaches it wrapped in a
    `ParseError`, whose conversion keeps `UnexpectedEnd` inside `InvalidInteger`/`InvalidString`). -/
inductive Err where
  | invalidInteger (e : IntErr)
  | invalidString (e : PrefixString.ErrKind)
  | invalidStaticIndex (i : Nat)
  | unknownPrefix (p : Nat)
  | missingRefs (n : Nat)
  | badBaseIndex (b : Int)
  | headerTooLong (n : Nat)
  /-- not in the code: the model's loop bound was reached (proved unreachable) -/
  | fuel
deriving Repr, DecidableEq

/-- `impl From<ParseError> for DecoderError` -/
def Err.ofParse : ParseError → Err
  | .integer e => .invalidInteger e
  | .string e => .invalidString e
  | .invalidPrefix p => .unknownPrefix p
  | .invalidBase b => .badBaseIndex b

/-- `usize::MAX as u64` (64-bit target) -/
def USIZE_MAX : Nat := 2 ^ 64 - 1

/-! ### block.rs -/

inductive HeaderBlockField where
  | indexed
  | indexedWithPostBase
  | literalWithNameRef
  | literalWithPostBaseNameRef
  | literal
  | unknown
deriving Repr, DecidableEq

/-- `HeaderBlockField::decode(first)`, tests in the order of the source -/
def HeaderBlockField.decode (first : Nat) : HeaderBlockField :=
  if first / 128 % 2 ≠ 0 then .indexed                        -- first & 0b1000_0000 != 0
  else if first / 16 % 16 = 1 then .indexedWithPostBase       -- first & 0b1111_0000 == 0b0001_0000
  else if first / 64 % 4 = 1 then .literalWithNameRef         -- first & 0b1100_0000 == 0b0100_0000
  else if first / 16 % 16 = 0 then .literalWithPostBaseNameRef -- first & 0b1111_0000 == 0
  else if first / 32 % 8 = 1 then .literal                    -- first & 0b1110_0000 == 0b0010_0000
  else .unknown

/-- `HeaderPrefix { encoded_insert_count, sign_negative, delta_base }` -/
structure HeaderPrefix where
  encodedInsertCount : Nat
  signNegative : Bool
  deltaBase : Nat
deriving Repr, DecidableEq

/-- `HeaderPrefix::new(required, base, total_inserted, max_table_size)` for
    `max_table_size = 0`, the only call of the stateless encoder (`new(0, 0, 0, 0)`). -/
def HeaderPrefix.new0 : HeaderPrefix := ⟨0, false, 0⟩

/-- `HeaderPrefix::decode` -/
def HeaderPrefix.decode (bs : Bytes) : Except ParseError (HeaderPrefix × Bytes) :=
  match PrefixInt.decode 8 bs with
  | .endOf => .error (.integer .unexpectedEnd)
  | .overflow => .error (.integer .overflow)
  | .ok _ ric r1 =>
    match PrefixInt.decode 7 r1 with
    | .endOf => .error (.integer .unexpectedEnd)
    | .overflow => .error (.integer .overflow)
    | .ok sign db r2 =>
      if ric > USIZE_MAX then .error (.integer .overflow)
      else if db > USIZE_MAX then .error (.integer .overflow)
      else .ok (⟨ric, sign == 1, db⟩, r2)

/-- `HeaderPrefix::get(total_inserted, max_table_size)` for `(0, 0)` — the call made by
    `decode_stateless` (the branch for a non-empty dynamic table belongs to the stateful
    decoder, property C20).  After the repair of D-11: with capacity 0 the full range of the
    Required Insert Count is 0, so every non-zero encoded value is out of range (RFC 9204
    §4.5.1.1), and with a Required Insert Count of 0 a sign bit of 1 gives a negative Base
    (§4.5.1.2).  The `isize` in `InvalidBase` is `-1 - delta_base` when that is representable,
    else `isize::MIN`. -/
def HeaderPrefix.get (p : HeaderPrefix) : Except ParseError (Nat × Nat) :=
  if p.encodedInsertCount ≠ 0 then .error (.integer .overflow)
  else if p.signNegative then
    .error (.invalidBase (if p.deltaBase < 2 ^ 63 then -1 - (p.deltaBase : Int) else -(2 ^ 63 : Int)))
  else .ok (0, 0)

/-- `HeaderPrefix::encode` -/
def HeaderPrefix.encode (p : HeaderPrefix) : Bytes :=
  PrefixInt.encode 8 0 p.encodedInsertCount ++
    PrefixInt.encode 7 (if p.signNegative then 1 else 0) p.deltaBase

inductive Indexed where
  | static (i : Nat)
  | dynamic (i : Nat)
deriving Repr, DecidableEq

/-- `Indexed::decode` -/
def Indexed.decode (bs : Bytes) : Except ParseError (Indexed × Bytes) :=
  match PrefixInt.decode 6 bs with
  | .endOf => .error (.integer .unexpectedEnd)
  | .overflow => .error (.integer .overflow)
  | .ok f i rest =>
    if f = 3 then
      if i > USIZE_MAX then .error (.integer .overflow) else .ok (.static i, rest)
    else if f = 2 then
      if i > USIZE_MAX then .error (.integer .overflow) else .ok (.dynamic i, rest)
    else .error (.invalidPrefix f)

/-- `Indexed::encode` -/
def Indexed.encode : Indexed → Bytes
  | .static i => PrefixInt.encode 6 3 i
  | .dynamic i => PrefixInt.encode 6 2 i

/-- `IndexedWithPostBase::decode` (not called by the stateless path, which refuses on the first
    byte; kept for the record of the representation) -/
def IndexedWithPostBase.decode (bs : Bytes) : Except ParseError (Nat × Bytes) :=
  match PrefixInt.decode 4 bs with
  | .endOf => .error (.integer .unexpectedEnd)
  | .overflow => .error (.integer .overflow)
  | .ok f i rest =>
    if f = 1 then
      if i > USIZE_MAX then .error (.integer .overflow) else .ok (i, rest)
    else .error (.invalidPrefix f)

/-- `IndexedWithPostBase::encode` -/
def IndexedWithPostBase.encode (i : Nat) : Bytes := PrefixInt.encode 4 1 i

/-- D-15 ghost flag of the string literal at the head of `bs` (`size` argument `n`): the
    payload `prefix_string::decode` hands to the Huffman decoder goes through the lax branch. -/
def strLax (n : Nat) (bs : Bytes) : Bool :=
  match PrefixInt.decode (n - 1) bs with
  | .ok f len rest => f % 2 == 1 && decide (len ≤ rest.length) && Huffman.lax (rest.take len)
  | _ => false

/-- `prefix_string::decode(size, buf)?` inside a `block.rs` decoder: value, unread rest, ghost
    flag. -/
def strDecode (n : Nat) (bs : Bytes) : Except ParseError (Bytes × Bytes × Bool) :=
  match PrefixString.decode n bs with
  | .err k => .error (.string k)
  | .ok _ v rest => .ok (v, rest, strLax n bs)

inductive LiteralWithNameRef where
  | static (index : Nat) (value : Bytes)
  | dynamic (index : Nat) (value : Bytes)
deriving Repr, DecidableEq

/-- `LiteralWithNameRef::decode`: the value string is read before the caller looks at the kind
    of reference. -/
def LiteralWithNameRef.decode (bs : Bytes) : Except ParseError (LiteralWithNameRef × Bytes × Bool) :=
  match PrefixInt.decode 4 bs with
  | .endOf => .error (.integer .unexpectedEnd)
  | .overflow => .error (.integer .overflow)
  | .ok f i rest =>
    if f % 2 = 1 ∧ f / 4 % 2 = 1 then                       -- f & 0b0101 == 0b0101
      if i > USIZE_MAX then .error (.integer .overflow)
      else match strDecode 8 rest with
        | .error e => .error e
        | .ok (v, rest', lax) => .ok (.static i v, rest', lax)
    else if f % 2 = 0 ∧ f / 4 % 2 = 1 then                  -- f & 0b0101 == 0b0100
      if i > USIZE_MAX then .error (.integer .overflow)
      else match strDecode 8 rest with
        | .error e => .error e
        | .ok (v, rest', lax) => .ok (.dynamic i v, rest', lax)
    else .error (.invalidPrefix f)

/-- `LiteralWithNameRef::encode`; `none` = panic inside the string encoder (never for bytes) -/
def LiteralWithNameRef.encode? : LiteralWithNameRef → Option Bytes
  | .static i v => (PrefixString.encode? 8 0 v).map (PrefixInt.encode 4 5 i ++ ·)
  | .dynamic i v => (PrefixString.encode? 8 0 v).map (PrefixInt.encode 4 4 i ++ ·)

/-- `LiteralWithPostBaseNameRef::decode` (not called by the stateless path) -/
def LiteralWithPostBaseNameRef.decode (bs : Bytes) : Except ParseError ((Nat × Bytes) × Bytes × Bool) :=
  match PrefixInt.decode 3 bs with
  | .endOf => .error (.integer .unexpectedEnd)
  | .overflow => .error (.integer .overflow)
  | .ok f i rest =>
    if f / 16 % 16 = 0 then                                  -- f & 0b1111_0000 == 0
      if i > USIZE_MAX then .error (.integer .overflow)
      else match strDecode 8 rest with
        | .error e => .error e
        | .ok (v, rest', lax) => .ok ((i, v), rest', lax)
    else .error (.invalidPrefix f)

/-- `LiteralWithPostBaseNameRef::encode` -/
def LiteralWithPostBaseNameRef.encode? (i : Nat) (v : Bytes) : Option Bytes :=
  (PrefixString.encode? 8 0 v).map (PrefixInt.encode 3 0 i ++ ·)

/-- `Literal::decode`: name with a 3-bit length prefix (`size` 4), value with a 7-bit one. -/
def Literal.decode (bs : Bytes) : Except ParseError ((Bytes × Bytes) × Bytes × Bool) :=
  match bs with
  | [] => .error (.integer .unexpectedEnd)
  | first :: _ =>
    if first / 32 % 8 ≠ 1 then .error (.invalidPrefix first)  -- first & 0b1110_0000 != 0b0010_0000
    else match strDecode 4 bs with
      | .error e => .error e
      | .ok (name, r1, lax1) =>
        match strDecode 8 r1 with
        | .error e => .error e
        | .ok (value, r2, lax2) => .ok ((name, value), r2, lax1 || lax2)

/-- `Literal::encode`; `none` = panic -/
def Literal.encode? (name value : Bytes) : Option Bytes :=
  match PrefixString.encode? 4 2 name, PrefixString.encode? 8 0 value with
  | some a, some b => some (a ++ b)
  | _, _ => none

/-! ### encoder.rs: `encode_stateless` -/

/-- one iteration of the `for field in fields` loop: the bytes appended to the block -/
def encodeField? (f : Field) : Option Bytes :=
  match StaticTable.find f with
  | some index => some (Indexed.encode (.static index))
  | none =>
    match StaticTable.findName f.name with
    | some index => LiteralWithNameRef.encode? (.static index f.value)
    | none => Literal.encode? f.name f.value

/-- the loop: bytes appended, and `size` (`u64`) after it -/
def encodeFields? : List Field → Nat → Option (Bytes × Nat)
  | [], size => some ([], size)
  | f :: fs, size =>
    match encodeField? f with
    | none => none
    | some b =>
      match encodeFields? fs (size + f.memSize) with
      | none => none
      | some (bs, size') => some (b ++ bs, size')

/-- `encode_stateless(block, fields)`: bytes written to the (empty) block and the `Ok(size)`
    returned; `none` = panic.  The `Result` is never `Err`. -/
def encodeStateless? (fs : List Field) : Option (Bytes × Nat) :=
  match encodeFields? fs 0 with
  | none => none
  | some (bs, size) => some (HeaderPrefix.new0.encode ++ bs, size)

/-- total version for field lists of byte strings (`C11_encode_then_rfc_decode`) -/
def encodeStateless (fs : List Field) : Bytes × Nat := (encodeStateless? fs).getD ([], 0)

/-! ### decoder.rs: `decode_stateless` -/

/-- one iteration of the `while buf.has_remaining()` loop up to `mem_size += …`: the field, the
    unread rest, the ghost flag.  `bs = first :: _`. -/
def decodeField (first : Nat) (bs : Bytes) : Except Err (Field × Bytes × Bool) :=
  match HeaderBlockField.decode first with
  | .indexedWithPostBase => .error (.missingRefs 0)
  | .literalWithPostBaseNameRef => .error (.missingRefs 0)
  | .indexed =>
    match Indexed.decode bs with
    | .error e => .error (.ofParse e)
    | .ok (.dynamic _, _) => .error (.missingRefs 0)
    | .ok (.static i, rest) =>
      match StaticTable.get i with
      | none => .error (.invalidStaticIndex i)
      | some f => .ok (f, rest, false)
  | .literalWithNameRef =>
    match LiteralWithNameRef.decode bs with
    | .error e => .error (.ofParse e)
    | .ok (.dynamic _ _, _, _) => .error (.missingRefs 0)
    | .ok (.static i v, rest, lax) =>
      match StaticTable.get i with
      | none => .error (.invalidStaticIndex i)
      | some f => .ok (f.withValue v, rest, lax)
  | .literal =>
    match Literal.decode bs with
    | .error e => .error (.ofParse e)
    | .ok ((name, value), rest, lax) => .ok (⟨name, value⟩, rest, lax)
  | .unknown => .error (.unknownPrefix first)

/-- `Ok(Decoded { fields, mem_size, dyn_ref: false })` or `Err(e)` -/
inductive Res where
  | ok (fields : List Field) (memSize : Nat)
  | err (e : Err)
deriving Repr, DecidableEq

/-- the loop, `mem` = `mem_size` so far; fuel = bytes left (every iteration consumes at least
    one).  Second component: ghost flag (some accepted string literal was lax, D-15). -/
def decodeLoop (max : Nat) : Nat → Bytes → Nat → Res × Bool
  | _, [], mem => (.ok [] mem, false)
  | 0, _ :: _, _ => (.err .fuel, false)
  | fuel+1, first :: r, mem =>
    match decodeField first (first :: r) with
    | .error e => (.err e, false)
    | .ok (field, rest, lax) =>
      let mem' := mem + field.memSize
      if mem' > max then (.err (.headerTooLong mem'), lax)
      else
        match decodeLoop max fuel rest mem' with
        | (.ok fs total, lax') => (.ok (field :: fs) total, lax || lax')
        | (.err e, lax') => (.err e, lax || lax')

/-- `decode_stateless(buf, max_size)` with the ghost flag -/
def decodeStatelessX (bs : Bytes) (max : Nat) : Res × Bool :=
  match HeaderPrefix.decode bs with
  | .error e => (.err (.ofParse e), false)
  | .ok (p, rest) =>
    match p.get with
    | .error e => (.err (.ofParse e), false)
    | .ok (requiredRef, _) =>
      if requiredRef > 0 then (.err (.missingRefs requiredRef), false)
      else decodeLoop max rest.length rest 0

/-- `decode_stateless(buf, max_size)` -/
def decodeStateless (bs : Bytes) (max : Nat) : Res := (decodeStatelessX bs max).1

/-- `true` iff some string literal of `bs` was accepted through the lax Huffman branch (D-15) -/
def laxSection (bs : Bytes) (max : Nat) : Bool := (decodeStatelessX bs max).2

/-! ### the size limit at the call sites (RFC 9114 §4.2.2)

    `client/connection.rs` (`send_request`), `server/stream.rs` (`send_response`),
    `connection.rs` (`send_trailers`, `poll_recv_trailers`), `client/stream.rs`
    (`recv_response`, `poll_recv_trailers`), `server/request.rs` (`accept_with_frame`,
    `resolve`), `shared_state.rs` (`settings()`), `config.rs` (`Settings::default`). -/

/-- `ConnectionState::settings().max_field_section_size`: the peer's value once its SETTINGS
    have been applied (`None` before), else `Settings::default()`; a SETTINGS frame without the
    parameter also yields the default. -/
def peerLimit (applied : Option Nat) : Nat := applied.getD H3.Gen.Field.DEFAULT_MAX_FIELD_SECTION_SIZE

/-- Outcome of a send site. -/
inductive SendOut where
  /-- `stream::write(Frame::Headers(block))`: the QPACK block handed to the frame writer -/
  | written (block : Bytes)
  /-- `Err(StreamError::HeaderTooBig { actual_size, max_size })`, nothing written -/
  | refused (actual max : Nat)
  /-- panic inside the encoder (never for byte strings) -/
  | panic
deriving Repr, DecidableEq

/-- The code shared (textually repeated) by `send_request`, `send_response`, `send_trailers`:
    encode, compare `mem_size > settings().max_field_section_size`, write. -/
def sendSite (applied : Option Nat) (fs : List Field) : SendOut :=
  match encodeStateless? fs with
  | none => .panic
  | some (block, memSize) =>
    if memSize > peerLimit applied then .refused memSize (peerLimit applied) else .written block

/-- `client::SendRequest::send_request` is the one send site with a suspension point *before* the
    comparison: `poll_open_bidi().await` stays pending while the peer's bidirectional-stream limit
    is exhausted, and the connection driver may store the peer's SETTINGS meanwhile.  The code
    reads `self.settings().max_field_section_size` after that await, directly before the
    comparison and the write: `atOpen` = the settings cell when the stream has been opened
    (what is used), `atCall` = the cell when the call was made (not looked at). -/
def sendRequestSite (_atCall atOpen : Option Nat) (fs : List Field) : SendOut := sendSite atOpen fs

/-- `connection::RequestStream::split`: the field `max_field_section_size` (the limit for what
    this stream object *receives*) of the two halves, `(send half, receive half)`: the send half
    gets the literal `0`, the receive half keeps the configured maximum.  What either half may
    *send* is not a field of the stream: `send_trailers` / `send_response` read the shared
    settings cell (`sendSite`) whether the stream has been split or not. -/
def splitLimits (maxFieldSectionSize : Nat) : Nat × Nat := (0, maxFieldSectionSize)

/-- What a receive site does with `decode_stateless`'s answer. -/
inductive RecvOut where
  /-- decoded; the call goes on to validate the message (C12) -/
  | fields (fs : List Field)
  /-- `Err(StreamError::HeaderTooBig { actual_size, max_size })`, `stop` = code of the
      `STOP_SENDING` issued on the request stream if any; no connection error -/
  | tooBig (actual max : Nat) (stop : Option Nat)
  /-- `handle_connection_error_on_stream(code)`: error cell written, connection closed -/
  | connError (code : Nat)
deriving Repr, DecidableEq

inductive RecvSite where
  /-- `server::RequestResolver::accept_with_frame` (the 431 is sent by `resolve`, below) -/
  | serverRequest
  /-- `connection::RequestStream::poll_recv_trailers` called through the server's stream -/
  | serverTrailers
  /-- `client::RequestStream::recv_response` -/
  | clientResponse
  /-- `client::RequestStream::poll_recv_trailers` -/
  | clientTrailers
deriving Repr, DecidableEq

/-- `Code::QPACK_DECOMPRESSION_FAILED`, `Code::H3_REQUEST_CANCELLED` -/
def QPACK_DECOMPRESSION_FAILED : Nat := H3.Gen.Consts.CODE_QPACK_DECOMPRESSION_FAILED
def H3_REQUEST_CANCELLED : Nat := H3.Gen.Consts.CODE_H3_REQUEST_CANCELLED

/-- the `STOP_SENDING` a site issues together with `HeaderTooBig` -/
def RecvSite.stopCode : RecvSite → Option Nat
  | .serverRequest => none
  | .serverTrailers => none
  | .clientResponse => some H3_REQUEST_CANCELLED
  | .clientTrailers => some H3_REQUEST_CANCELLED

/-- the three-armed `match qpack::decode_stateless(..)` of every receive site: `HeaderTooLong`
    becomes `HeaderTooBig`, `Ok` goes on, *every other error* becomes a connection error
    `QPACK_DECOMPRESSION_FAILED`. -/
def recvSite (site : RecvSite) (maxFieldSectionSize : Nat) (block : Bytes) : RecvOut :=
  match decodeStateless block maxFieldSectionSize with
  | .ok fs _ => .fields fs
  | .err (.headerTooLong n) => .tooBig n maxFieldSectionSize site.stopCode
  | .err _ => .connError QPACK_DECOMPRESSION_FAILED

/-- the field section of the 431 answer: `Header::response(REQUEST_HEADER_FIELDS_TOO_LARGE, {})` -/
def response431 : List Field := [⟨[58, 115, 116, 97, 116, 117, 115], [52, 51, 49]⟩]

/-- Outcome of `RequestResolver::resolve_request` as far as the limit decides it. -/
inductive ResolveOut where
  /-- decoded; goes on to `Header::try_from` (C12) -/
  | fields (fs : List Field)
  /-- `Err(HeaderTooBig { actual, max })`; `wire` = block of the 431 HEADERS frame written on the
      request stream, `none` when that send was refused (the error returned is then the one of
      `send_response`: the 431's own size against the client's limit) -/
  | tooBig (actual max : Nat) (wire : Option Bytes)
  | connError (code : Nat)
  | panic
deriving Repr, DecidableEq

/-- `accept_with_frame` + `resolve`: over the limit ⇒ `send_response(431).await?`, then
    `HeaderTooBig`. -/
def serverResolve (maxFieldSectionSize : Nat) (applied : Option Nat) (block : Bytes) : ResolveOut :=
  match recvSite .serverRequest maxFieldSectionSize block with
  | .fields fs => .fields fs
  | .connError c => .connError c
  | .tooBig n m _ =>
    match sendSite applied response431 with
    | .written b => .tooBig n m (some b)
    | .refused a pm => .tooBig a pm none
    | .panic => .panic

end H3.Qpack
