import H3.Model.PrefixInt
import H3.Model.Huffman
/-! Model of `h3/src/qpack/prefix_string/mod.rs`: string literals = prefixed integer with the
    Huffman flag `H` just above the length prefix, then the (possibly Huffman-coded) payload.

    `n` is the `size` argument (the length prefix has `n − 1` bits, `H` is bit `n − 1` of the first
    byte).  The Rust `decode` returns only the bytes; the model also returns the first byte's bits
    above `H` (`flags`, what the callers have looked at before calling) and the unread rest. -/
namespace H3.PrefixString

inductive ErrKind where
  /-- `Error::UnexpectedEnd` (integer truncated, or payload shorter than its length) -/
  | unexpectedEnd
  /-- `Error::Integer(Overflow)` -/
  | integerOverflow
  /-- `Error::HuffmanDecoding(e)` -/
  | huffman (e : Huffman.Err)
  /-- `Error::BufSize(TryFromIntError)`: a Huffman literal whose bit length + 16 does not fit `u32`
      (the repair of D-06u; `len.try_into::<usize>()` never fails where `usize` is 64 bits) -/
  | bufSize
deriving Repr, DecidableEq

inductive Res where
  | ok (flags : Nat) (value rest : List Nat)
  | err (k : ErrKind)
deriving Repr, DecidableEq

/-- the part of `decode` after the length has been read -/
def decodePayload (flags len : Nat) (rest : List Nat) : Res :=
  if rest.length < len then .err .unexpectedEnd
  else
    let payload := rest.take len
    let rest' := rest.drop len
    if flags % 2 = 0 then .ok (flags / 2) payload rest'
    else
      match Huffman.hdecode payload with
      | .ok v => .ok (flags / 2) v rest'
      | .error e => .err (.huffman e)

/-- `if flags & 1 == 1 { u32::try_from(len.saturating_mul(8).saturating_add(16))?; }` fails: the Huffman
    flag is set and `len * 8 + 16` (saturating in `usize`, which changes nothing about the comparison with
    `u32::MAX`) does not fit `u32`.  The Huffman decoder addresses its input in bits with `u32` positions
    (`Huffman.hdecodeC`): with this refusal in front of it they cannot wrap (`C15_huffman_positions_fit`). -/
def hugeHuffman (flags len : Nat) : Bool := flags % 2 == 1 && decide (2 ^ 32 ≤ len * 8 + 16)

/-- `prefix_string::decode(size, buf)` with (`g = true`) or without (`g = false`: the body before the repair
    of D-06u) the refusal of a Huffman literal too long for the decoder's `u32` bit positions.
    `none` = panic (`size - 1` on `u8` for `size = 0` in a build with overflow checks; the panics of
    `prefix_int::decode`). -/
def decodeG? (g : Bool) (n : Nat) (bs : List Nat) : Option Res :=
  if n = 0 then none
  else
    match PrefixInt.decode? (n - 1) bs with
    | none => none
    | some .endOf => some (.err .unexpectedEnd)
    | some .overflow => some (.err .integerOverflow)
    | some (.ok flags len rest) =>
      if (g && hugeHuffman flags len) = true then some (.err .bufSize)
      else some (decodePayload flags len rest)

/-- `prefix_string::decode(size, buf)` of the tree under check: which of the two bodies it has is read from
    the source on every run (`H3.Gen.HuffDec.hugeLiteralRefused`; the translator refuses any third shape). -/
def decode? (n : Nat) (bs : List Nat) : Option Res := decodeG? H3.Gen.HuffDec.hugeLiteralRefused n bs

/-- `decodePayload` over the Huffman decoder with its machine arithmetic made explicit
    (`Huffman.hdecodeC`); `none` = one of the decoder's `u32` / shift / index operations overflows. -/
def decodePayloadC (flags len : Nat) (rest : List Nat) : Option Res :=
  if rest.length < len then some (.err .unexpectedEnd)
  else
    let payload := rest.take len
    let rest' := rest.drop len
    if flags % 2 = 0 then some (.ok (flags / 2) payload rest')
    else
      match Huffman.hdecodeC payload with
      | none => none
      | some (.ok (v, _)) => some (.ok (flags / 2) v rest')
      | some (.error e) => some (.err (.huffman e))

/-- `decodeG?` with `decodePayloadC`: `none` = panic, now including the Huffman decoder's arithmetic.
    `C15_huffman_positions_fit`: with the refusal (`g = true`) this is `decodeG? true` on EVERY input. -/
def decodeGC? (g : Bool) (n : Nat) (bs : List Nat) : Option Res :=
  if n = 0 then none
  else
    match PrefixInt.decode? (n - 1) bs with
    | none => none
    | some .endOf => some (.err .unexpectedEnd)
    | some .overflow => some (.err .integerOverflow)
    | some (.ok flags len rest) =>
      if (g && hugeHuffman flags len) = true then some (.err .bufSize)
      else decodePayloadC flags len rest

/-- Total version for callers that pass a literal size in 2..9. -/
def decode (n : Nat) (bs : List Nat) : Res := (decode? n bs).getD (.err .unexpectedEnd)

/-- `decode(size, buf)` for a `Buf` made of several chunks: the length is read through `get_u8`, the test
    is on `remaining()` (all chunks), the payload is taken with `copy_to_bytes(len)`, which gathers across
    chunk boundaries — the answer is that for the concatenation, wherever the cuts are
    (`C15_decode_chunking_independent`; engine `pstr decm` runs the real function over such a `Buf`: a
    payload taken from `chunk()`, the first piece only, is cut short there). -/
def decodeM? (n : Nat) (chunks : List (List Nat)) : Option Res := decode? n chunks.flatten

/-- `prefix_string::encode(size, flags, value, buf)`: the bytes written; always Huffman-coded.
    `none` = panic.  Over `Huffman.hencode?` (positions in `Nat`): the code for values whose coding fits the
    encoder's `u32` positions (`encodeC?` below; D-15e).  `flags << 1 | 1` on `u8` drops the top bit of `flags`. -/
def encode? (n flags : Nat) (value : List Nat) : Option (List Nat) :=
  match Huffman.hencode? value with
  | none => none
  | some encoded =>
    if n = 0 then none
    else
      match PrefixInt.encode? (n - 1) ((flags * 2) % 256 ||| 1) encoded.length with
      | none => none
      | some pre => some (pre ++ encoded)

def encode (n flags : Nat) (value : List Nat) : List Nat := (encode? n flags value).getD []

/-- `prefix_string::encode` over the Huffman encoder with its machine arithmetic made explicit
    (`Huffman.hencodeC`: `g` = the shape of `put`, `grow` = the growth policy of `Vec`): `none` = panic, now
    including the overflow of the encoder's `u32` positions; `.tooLong` = `Err(Error::HuffmanEncoding(_))`
    (repaired shape only; nothing has been written to `buf`).  `C15_string_literal_encode`: `some (.ok (encode n
    flags value))` whenever the coding fits (`7·L < 2^32`). -/
def encodeC? (g : Bool) (grow : Nat → Nat → Nat) (n flags : Nat) (value : List Nat) : Option Huffman.EncOut :=
  match Huffman.hencodeC g grow value with
  | none => none
  | some .tooLong => some .tooLong
  | some (.ok encoded) =>
    if n = 0 then none
    else
      match PrefixInt.encode? (n - 1) ((flags * 2) % 256 ||| 1) encoded.length with
      | none => none
      | some pre => some (.ok (pre ++ encoded))

end H3.PrefixString
