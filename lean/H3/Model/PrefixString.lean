import H3.Model.PrefixInt
import H3.Model.Huffman
/-! Model of `h3/src/qpack/prefix_string/mod.rs`: string literals = prefixed integer with the
    Huffman flag `H` just above the length prefix, then the (possibly Huffman-coded) payload.

    `n` is the `size` argument (the length prefix has `n − 1` bits, `H` is bit `n − 1` of the first
    byte).  The Rust `decode` returns only the bytes; the model also returns the first byte's bits
    above `H` (`flags`, what the callers have looked at before calling) and the unread rest. -/
namespace H3.PrefixString

inductive ErrKind where
  /-- `Error::UnexpectedEnd` (integer truncated, or payload shorter than its length) -/
  | unexpectedEnd
  /-- `Error::Integer(Overflow)` -/
  | integerOverflow
  /-- `Error::HuffmanDecoding(e)` -/
  | huffman (e : Huffman.Err)
deriving Repr, DecidableEq

inductive Res where
  | ok (flags : Nat) (value rest : List Nat)
  | err (k : ErrKind)
deriving Repr, DecidableEq

/-- the part of `decode` after the length has been read -/
def decodePayload (flags len : Nat) (rest : List Nat) : Res :=
  if rest.length < len then .err .unexpectedEnd
  else
    let payload := rest.take len
    let rest' := rest.drop len
    if flags % 2 = 0 then .ok (flags / 2) payload rest'
    else
      match Huffman.hdecode payload with
      | .ok v => .ok (flags / 2) v rest'
      | .error e => .err (.huffman e)

/-- `prefix_string::decode(size, buf)`.  `none` = panic (`size - 1` on `u8` for `size = 0` in a
    build with overflow checks; the panics of `prefix_int::decode`). -/
def decode? (n : Nat) (bs : List Nat) : Option Res :=
  if n = 0 then none
  else
    match PrefixInt.decode? (n - 1) bs with
    | none => none
    | some .endOf => some (.err .unexpectedEnd)
    | some .overflow => some (.err .integerOverflow)
    | some (.ok flags len rest) => some (decodePayload flags len rest)

/-- Total version for callers that pass a literal size in 2..9. -/
def decode (n : Nat) (bs : List Nat) : Res := (decode? n bs).getD (.err .unexpectedEnd)

/-- `prefix_string::encode(size, flags, value, buf)`: the bytes written; always Huffman-coded.
    `none` = panic.  `flags << 1 | 1` on `u8` drops the top bit of `flags`. -/
def encode? (n flags : Nat) (value : List Nat) : Option (List Nat) :=
  match Huffman.hencode? value with
  | none => none
  | some encoded =>
    if n = 0 then none
    else
      match PrefixInt.encode? (n - 1) ((flags * 2) % 256 ||| 1) encoded.length with
      | none => none
      | some pre => some (pre ++ encoded)

def encode (n flags : Nat) (value : List Nat) : List Nat := (encode? n flags value).getD []

end H3.PrefixString
