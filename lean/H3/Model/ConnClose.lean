import H3.Model.FrameStream
import H3.Model.ErrCell
/-! The connection-error event of a receive stream, carried ADDITIVELY by the `H3.FS` model.

    `h3/src/frame.rs` `FrameStream::try_recv` (`Poll::Ready(Err(e)) => Err(FrameStreamError::Quic(e))`)
    and `h3/src/stream.rs` `BufRecvStream::poll_read` (`?`) pass on WHATEVER `StreamErrorIncoming` the
    transport's `poll_data` answers, without looking at it.  The transport event `Ev.reset c` of
    `H3.FS` and the answer `Out.errQuic c` therefore model "the transport answered `Err(e)`" for any
    `e`, with `c` naming it; so far only `StreamTerminated { error_code: c }` was named.  This file
    names the others: `TErr` = `StreamErrorIncoming`, `TErr.code` an injective naming that is the
    identity on QUIC error codes (`< 2^62`, they are varints) and uses the numbers from `2^62` on —
    which no RESET_STREAM can carry — for `ConnectionErrorIncoming` and `Unknown`.  A transport
    script with connection errors as events of their own (`EvC`) is lowered to a `List Ev`; nothing
    in `H3.FS`, `H3.ReqRecv` or the lemmas about them changes.

    What the layers above do with the error they are handed is where the variants differ:
    `handleQuic` = `handle_quic_stream_error` (`h3/src/error/connection_error_creators.rs`):
    a connection error is stored in the shared cell unless one is there (`set_conn_error_and_wake`;
    the wake-up is `H3.ErrCell`'s subject) and the call returns `StreamError::ConnectionError` with
    the error that is in the cell; `StreamTerminated` ⇒ `RemoteTerminate`; `Unknown` ⇒ `Undefined`. -/
namespace H3.ConnClose
open H3.FS H3.ErrCell

/-- `quic::StreamErrorIncoming` -/
inductive TErr where
  | terminated (code : Nat)
  | conn (q : QErr)
  | unknown (tag : Nat)
deriving Repr, DecidableEq

def encQ : QErr → Nat
  | .appClose c => 4 * c
  | .timeout => 1
  | .internal t => 4 * t + 2
  | .undefined t => 4 * t + 3

def decQ (n : Nat) : QErr :=
  if n % 4 = 0 then .appClose (n / 4)
  else if n % 4 = 1 then .timeout
  else if n % 4 = 2 then .internal (n / 4)
  else .undefined (n / 4)

/-- the number under which `Ev.reset` / `Out.errQuic` carry the error -/
def TErr.code : TErr → Nat
  | .terminated c => c
  | .conn q => 2 ^ 62 + 2 * encQ q
  | .unknown t => 2 ^ 62 + 2 * t + 1

def TErr.ofCode (n : Nat) : TErr :=
  if n < 2 ^ 62 then .terminated n
  else if (n - 2 ^ 62) % 2 = 0 then .conn (decQ ((n - 2 ^ 62) / 2))
  else .unknown ((n - 2 ^ 62) / 2)

/-- a transport event when connection errors are told apart -/
inductive EvC where
  | chunk (b : Bytes) | pend | fin
  /-- the peer reset the stream: `StreamTerminated { error_code }` -/
  | reset (c : Nat)
  /-- the connection was closed by the peer / timed out / failed: every read from now on answers
      `ConnectionErrorIncoming` -/
  | connErr (q : QErr)
  /-- `StreamErrorIncoming::Unknown` -/
  | unknown (tag : Nat)
deriving Repr, DecidableEq

def EvC.lower : EvC → Ev
  | .chunk b => .chunk b
  | .pend => .pend
  | .fin => .fin
  | .reset c => .reset (TErr.code (.terminated c))
  | .connErr q => .reset (TErr.code (.conn q))
  | .unknown t => .reset (TErr.code (.unknown t))

def lower (sc : List EvC) : List Ev := sc.map EvC.lower

/-- `StreamError` as `handle_quic_stream_error` builds it -/
inductive SErr where
  /-- `StreamError::RemoteTerminate { code }` -/
  | remoteTerminate (code : Nat)
  /-- `StreamError::ConnectionError(convert_to_connection_error(err))` -/
  | connection (e : CErr)
  /-- `StreamError::Undefined(..)` -/
  | undefined (tag : Nat)
deriving Repr, DecidableEq

/-- `handle_quic_stream_error` on the shared error cell (`SharedState.connection_error`, first
    error wins): the returned `StreamError` and the cell afterwards -/
def handleQuic (cell : Option Err) : TErr → SErr × Option Err
  | .terminated c => (.remoteTerminate c, cell)
  | .unknown t => (.undefined t, cell)
  | .conn q =>
    match cell with
    | some e => (.connection (convert e), some e)
    | none => (.connection (convert (.quic q)), some (.quic q))

end H3.ConnClose
