import H3.Model.Frame
import H3.Model.UniAccept
import H3.Gen.Consts
/-! Model of the control/unidirectional-stream handling of a connection:
    `ConnectionInner::{poll_accept_recv, poll_control, poll_grease_stream, process_goaway}`
    (`h3/src/connection.rs`), server `poll_control`/`poll_next_control`
    (`h3/src/server/connection.rs`) and client `poll_close` (`h3/src/client/connection.rs`).

    Inputs are what the two layers below hand over, in the order the code looks at them:
    * `In.uni tag a`   — `poll_type`/`into_stream` of one pending unidirectional stream has an
                         answer (`H3.UniAccept`),
    * `In.item i`      — `FrameStream::poll_next` on the control stream returns `Ready(i)`
                         (`H3.FS`; unknown frame types never show up here, the frame layer skips them),
    * `In.pend`        — it returns `Pending` (the driver's poll ends),
    and a *grease script*: the answers of `poll_open_send`, `send_data`, `poll_ready`,
    `poll_finish` of the grease stream to successive calls (exhausted = `Pending`). -/
namespace H3.Control
open H3.Frame H3.Gen.Consts

inductive Role where
  | server | client
deriving Repr, DecidableEq

structure Cfg where
  role : Role
  /-- `config.settings.enable_webtransport` -/
  wt : Bool := false
deriving Repr, DecidableEq

/-- answer of `poll_type` + `into_stream` for one pending stream -/
inductive Arrival where
  | kind (k : UniAccept.Kind)
  /-- `PollTypeError::EndOfStream`: closed or reset before the header was complete -/
  | dropped
  /-- `PollTypeError::InternalError` -/
  | internal
deriving Repr, DecidableEq

/-- `GreaseStatus` -/
inductive GStep where
  | notStarted | started | dataPrepared | dataSent | finished
deriving Repr, DecidableEq

structure Conn where
  /-- `control_recv.is_some()` -/
  control : Bool := false
  /-- `qpack_streams.encoder_recv.is_some()` -/
  encoder : Bool := false
  /-- `qpack_streams.decoder_recv.is_some()` -/
  decoder : Bool := false
  /-- session ids of `accepted_streams.wt_uni_streams` -/
  wtUni : List Nat := []
  /-- `got_peer_settings` -/
  gotSettings : Bool := false
  /-- `recv_closing` of the role's connection object -/
  recvClosing : Option Nat := none
  /-- `handled_connection_error` (the code the connection was closed with) -/
  err : Option Nat := none
deriving Repr, DecidableEq

/-- the grease stream's part of `ConnectionInner` (nothing else reads or writes it) -/
structure Grease where
  /-- `send_grease_stream_flag` -/
  flag : Bool := false
  /-- `grease_step` -/
  step : GStep := .notStarted
deriving Repr, DecidableEq

def Conn.fail (c : Conn) (e : Nat) : Conn := { c with err := some e }

/-! ### `poll_accept_recv`: one resolved stream -/

structure AccRes where
  conn : Conn
  /-- connection error raised -/
  err : Option Nat := none
  /-- `stop_sending(code)` on this stream -/
  stop : Option Nat := none
deriving Repr, DecidableEq

def acceptKind (cfg : Cfg) (c : Conn) : UniAccept.Kind → AccRes
  | .control =>
    if c.control then { conn := c.fail CODE_H3_STREAM_CREATION_ERROR, err := some CODE_H3_STREAM_CREATION_ERROR }
    else { conn := { c with control := true } }
  | .encoder =>
    if c.encoder then { conn := c.fail CODE_H3_STREAM_CREATION_ERROR, err := some CODE_H3_STREAM_CREATION_ERROR }
    else { conn := { c with encoder := true } }
  | .decoder =>
    if c.decoder then { conn := c.fail CODE_H3_STREAM_CREATION_ERROR, err := some CODE_H3_STREAM_CREATION_ERROR }
    else { conn := { c with decoder := true } }
  | .wtUni sid =>
    -- kept until a session claims it, but only `if self.config.settings.enable_webtransport`;
    -- otherwise the `_ => ()` arm: the stream is dropped, no STOP_SENDING
    if cfg.wt then { conn := { c with wtUni := c.wtUni ++ [sid] } } else { conn := c }
  | .push => { conn := c }   -- the `_ => ()` arm
  | .unknown _ => { conn := c, stop := some CODE_H3_STREAM_CREATION_ERROR }

def acceptArrival (cfg : Cfg) (c : Conn) : Arrival → AccRes
  | .kind k => acceptKind cfg c k
  | .dropped => { conn := c }
  | .internal => { conn := c.fail CODE_H3_INTERNAL_ERROR, err := some CODE_H3_INTERNAL_ERROR }

/-! ### `poll_control`: what `FrameStream::poll_next` returned on the control stream -/

inductive Item where
  /-- `Ok(Some(frame))` -/
  | frame (f : Frame)
  /-- `Ok(None)`: clean end of the stream -/
  | fin
  /-- `Err(Quic(StreamTerminated))` -/
  | reset (c : Nat)
  /-- `Err(UnexpectedEnd)`: the stream ended inside a frame -/
  | truncated
  /-- `Err(Proto(e))` -/
  | proto (e : FrameErr)
deriving Repr, DecidableEq

/-- `InternalConnectionError::got_frame_error` -/
def protoCode : FrameErr → Nat
  | .malformed => CODE_H3_FRAME_ERROR
  | .unsupported _ => CODE_H3_FRAME_UNEXPECTED
  | .settings _ => CODE_H3_SETTINGS_ERROR

inductive Class where
  /-- `res = frame`; the connection state after the arm -/
  | pass (f : Frame) (c : Conn)
  | error (e : Nat)
deriving Repr, DecidableEq

/-- the arms for a frame that is not SETTINGS, once SETTINGS has been seen -/
def classifyLater (c : Conn) (f : Frame) : Class :=
  match f with
  | .goaway _ => .pass f c
  | .cancelPush _ => .pass f c
  | .maxPushId _ => .pass f c
  | _ => .error CODE_H3_FRAME_UNEXPECTED

/-- the big `match` of `ConnectionInner::poll_control` -/
def classify (c : Conn) : Item → Class
  | .reset _ => .error CODE_H3_CLOSED_CRITICAL_STREAM
  | .truncated => .error CODE_H3_FRAME_ERROR
  | .proto e => .error (protoCode e)
  | .fin => .error CODE_H3_CLOSED_CRITICAL_STREAM
  | .frame (.settings es) =>
    if c.gotSettings then .error CODE_H3_FRAME_UNEXPECTED
    else .pass (.settings es) { c with gotSettings := true }
  | .frame f =>
    if c.gotSettings then classifyLater c f else .error CODE_H3_MISSING_SETTINGS

/-! ### the role handlers -/

/-- `ConnectionInner::process_goaway` (the identifier rules are C08's) -/
def processGoaway (c : Conn) (id : Nat) : Conn × Option Nat :=
  match c.recvClosing with
  | some prev =>
    if prev < id then (c.fail CODE_H3_ID_ERROR, some CODE_H3_ID_ERROR)
    else ({ c with recvClosing := some id }, none)
  | none => ({ c with recvClosing := some id }, none)

/-- server `poll_next_control` after `inner.poll_control` returned the frame -/
def serverHandle (c : Conn) : Frame → Conn × Option Nat
  | .settings _ => (c, none)
  | .goaway id => processGoaway c id
  | .maxPushId _ => (c, none)
  | .cancelPush _ => (c, none)
  | _ => (c.fail CODE_H3_FRAME_UNEXPECTED, some CODE_H3_FRAME_UNEXPECTED)

/-- client `poll_close`, the arms for `Ok(frame)` -/
def clientHandle (c : Conn) : Frame → Conn × Option Nat
  | .settings _ => (c, none)
  | .goaway id =>
    if id % 4 = 0 then processGoaway c id   -- `StreamId::is_request`
    else (c.fail CODE_H3_ID_ERROR, some CODE_H3_ID_ERROR)
  | _ => (c.fail CODE_H3_FRAME_UNEXPECTED, some CODE_H3_FRAME_UNEXPECTED)

def handle (role : Role) (c : Conn) (f : Frame) : Conn × Option Nat :=
  match role with
  | .server => serverHandle c f
  | .client => clientHandle c f

/-! ### `poll_grease_stream` -/

inductive GAns where
  | pending
  /-- `Ready(Ok)` / `Ok` -/
  | ok
  /-- `Ready(Err)` / `Err` -/
  | err
deriving Repr, DecidableEq

def nextAns : List GAns → GAns × List GAns
  | [] => (.pending, [])
  | a :: r => (a, r)

/-- `DataSent`: `poll_finish` -/
def gFinish (c : Grease) (g : List GAns) : Bool × Grease × List GAns :=
  match nextAns g with
  | (.ok, r) => (true, { step := .finished, flag := false }, r)
  | (.pending, r) => (false, c, r)
  | (.err, r) => (true, { c with flag := false }, r)

/-- `DataPrepared`: `poll_ready` -/
def gReady (c : Grease) (g : List GAns) : Bool × Grease × List GAns :=
  match nextAns g with
  | (.ok, r) => gFinish { c with step := .dataSent } r
  | (.pending, r) => (false, c, r)
  | (.err, r) => (true, { c with flag := false }, r)

/-- `Started`: `send_data` (synchronous: anything but `err` is `Ok`) -/
def gSend (c : Grease) (g : List GAns) : Bool × Grease × List GAns :=
  match nextAns g with
  | (.err, r) => (true, { c with flag := false }, r)
  | (_, r) => gReady { c with step := .dataPrepared } r

/-- `NotStarted`: `poll_open_send` -/
def gOpen (c : Grease) (g : List GAns) : Bool × Grease × List GAns :=
  match nextAns g with
  | (.ok, r) => gSend { c with step := .started } r
  | (.pending, r) => (false, c, r)
  | (.err, r) => (true, { c with flag := false }, r)

/-- `poll_grease_stream`: `true` = `Ready(())`, `false` = `Pending`. -/
def pollGrease (c : Grease) (g : List GAns) : Bool × Grease × List GAns :=
  match c.step with
  | .notStarted => gOpen c g
  | .started => gSend c g
  | .dataPrepared => gReady c g
  | .dataSent => gFinish c g
  | .finished => (true, { c with flag := false }, g)

/-! ### `ConnectionInner::poll_control` and the role drivers -/

inductive In where
  | uni (tag : Nat) (a : Arrival)
  | item (i : Item)
  | pend
deriving Repr, DecidableEq

inductive PRes where
  | pending
  | ready (f : Frame)
  | err (e : Nat)
deriving Repr, DecidableEq

structure PollOut where
  res : PRes
  conn : Conn
  gs : Grease
  ins : List In
  g : List GAns
  /-- `(tag, code)` of every `stop_sending` issued -/
  stops : List (Nat × Nat) := []
deriving Repr, DecidableEq

def stopOf (tag : Nat) (a : AccRes) : List (Nat × Nat) :=
  match a.stop with
  | some code => [(tag, code)]
  | none => []

/-- the tail of `poll_control` once the frame `f` has been taken out of the control stream.
    `blocking = true` is the code before the repair of D-04a (`ready!(self.poll_grease_stream(cx))`:
    `Pending` is returned and `f` is dropped); `blocking = false` is the code that exists. -/
def afterFrame (blocking : Bool) (f : Frame) (c : Conn) (gs : Grease) (r : List In) (g : List GAns) : PollOut :=
  if gs.flag then
    match pollGrease gs g with
    | (rdy, gs2, g2) =>
      if blocking && !rdy then { res := .pending, conn := c, gs := gs2, ins := r, g := g2 }
      else { res := .ready f, conn := c, gs := gs2, ins := r, g := g2 }
  else { res := .ready f, conn := c, gs := gs, ins := r, g := g }

/-- one call of `ConnectionInner::poll_control`. -/
def pollControl (blocking : Bool) (cfg : Cfg) : Conn → Grease → List In → List GAns → PollOut
  | c, gs, [], g =>
    match c.err with
    | some e => { res := .err e, conn := c, gs := gs, ins := [], g := g }
    | none => { res := .pending, conn := c, gs := gs, ins := [], g := g }
  | c, gs, x :: r, g =>
    match c.err with
    | some e => { res := .err e, conn := c, gs := gs, ins := x :: r, g := g }   -- `poll_connection_error`
    | none =>
      match x with
      | .pend => { res := .pending, conn := c, gs := gs, ins := r, g := g }
      | .uni tag a =>
        let ar := acceptArrival cfg c a
        match ar.err with
        | some e => { res := .err e, conn := ar.conn, gs := gs, ins := r, g := g }
        | none =>
          let o := pollControl blocking cfg ar.conn gs r g
          { o with stops := stopOf tag ar ++ o.stops }
      | .item i =>
        -- without a control stream there is nothing to poll ("try later"); an item placed
        -- before the control stream's arrival is not deliverable and is discarded
        if c.control then
          match classify c i with
          | .error e => { res := .err e, conn := c.fail e, gs := gs, ins := r, g := g }
          | .pass f c1 => afterFrame blocking f c1 gs r g
        else { res := .pending, conn := c, gs := gs, ins := r, g := g }

structure DriveOut where
  /-- frames handed to the role handler, in order -/
  acts : List Frame := []
  /-- `none` = `Pending`, `some e` = the driver returned the connection error `e` -/
  res : Option Nat := none
  conn : Conn
  gs : Grease
  ins : List In
  g : List GAns
  stops : List (Nat × Nat) := []
deriving Repr, DecidableEq

/-- one poll of the role's driver: server `while poll_next_control(cx)?.is_ready() {}`,
    client `while let Ready(result) = inner.poll_control(cx) { … }`.
    Every `Ready` consumes an input, so `ins.length + 1` is enough fuel. -/
def drivePoll (blocking : Bool) (cfg : Cfg) : Nat → Conn → Grease → List In → List GAns → DriveOut
  | 0, c, gs, ins, g => { conn := c, gs := gs, ins := ins, g := g }
  | fuel+1, c, gs, ins, g =>
    let o := pollControl blocking cfg c gs ins g
    match o.res with
    | .pending => { conn := o.conn, gs := o.gs, ins := o.ins, g := o.g, stops := o.stops }
    | .err e => { res := some e, conn := o.conn, gs := o.gs, ins := o.ins, g := o.g, stops := o.stops }
    | .ready f =>
      match handle cfg.role o.conn f with
      | (c1, some e) =>
        { acts := [f], res := some e, conn := c1, gs := o.gs, ins := o.ins, g := o.g, stops := o.stops }
      | (c1, none) =>
        let d := drivePoll blocking cfg fuel c1 o.gs o.ins o.g
        { d with acts := f :: d.acts, stops := o.stops ++ d.stops }

/-- the driver is polled again and again (it is woken whenever something arrives) until the
    inputs are used up or the connection has failed. -/
def driveAll (blocking : Bool) (cfg : Cfg) :
    Nat → Conn → Grease → List In → List GAns → List Frame × Option Nat × Conn
  | 0, c, _, _, _ => ([], none, c)
  | fuel+1, c, gs, ins, g =>
    let d := drivePoll blocking cfg (ins.length + 1) c gs ins g
    match d.res with
    | some e => (d.acts, some e, d.conn)
    | none =>
      if d.ins.isEmpty then (d.acts, none, d.conn)
      else
        match driveAll blocking cfg fuel d.conn d.gs d.ins d.g with
        | (a, e, c1) => (d.acts ++ a, e, c1)

/-- one input, without polls and without the grease stream: new state, the frame handed to the
    role handler (if any), the connection error raised (if any). -/
def step (cfg : Cfg) (c : Conn) : In → Conn × Option Frame × Option Nat
  | .pend => (c, none, none)
  | .uni _ a =>
    let ar := acceptArrival cfg c a
    (ar.conn, none, ar.err)
  | .item i =>
    if c.control then
      match classify c i with
      | .error e => (c.fail e, none, some e)
      | .pass f c1 =>
        match handle cfg.role c1 f with
        | (c2, e) => (c2, some f, e)
    else (c, none, none)

def optList {α : Type} : Option α → List α
  | some a => [a]
  | none => []

/-- Reference run: the inputs one after the other, every frame handed to the role handler once,
    stop at the first connection error. -/
def refRun (cfg : Cfg) : Conn → List In → List Frame × Option Nat × Conn
  | c, [] => ([], none, c)
  | c, x :: r =>
    match step cfg c x with
    | (c1, f, some e) => (optList f, some e, c1)
    | (c1, f, none) =>
      match refRun cfg c1 r with
      | (a, e, c2) => (optList f ++ a, e, c2)

end H3.Control
