import H3.Model.Bits
import H3.Gen.HuffDec
import H3.Gen.HuffEnc
/-! Model of `h3/src/qpack/prefix_string/{bitwin,decode,encode}.rs` — the Huffman codec of
    QPACK string literals — as the code is written: the decoder walks the generated level tree
    (`H3.Gen.HuffDec`, one `HuffmanDecoder` per level, `lookup` bits per step) with the
    `BitWindow` arithmetic, `read_bits` and `check_eof` of the source; the encoder appends the
    byte parts of `HPACK_STRING` (`H3.Gen.HuffEnc.raw`) with `ensure_free_space`/`write_bits`.

    Bytes are `Nat`s (`< 256` for well-formed input).  `u8`/`u16` truncations are written as
    `% 256` / `% 65536`; `u32` positions are `Nat`s.  That they do not wrap is a theorem, not an
    assumption (decoder: below; encoder: the last section, `hencodeC`, with a bound on the coding length that
    the theorems about the encoder carry as a hypothesis — site D-15e): the section "machine arithmetic made explicit" below repeats the decoder with every
    `u32` / `u8` / `u16` operation and every indexing checked (`hdecodeC`, `none` = an operation
    overflows), `C15_huffman_positions_fit` proves that for inputs with `8·len + 8 < 2^32` nothing
    overflows and the answers are those of the unchecked functions, and `prefix_string::decode`
    refuses longer Huffman literals before the decoder sees them (the repair of D-06u;
    `H3.PrefixString.hugeHuffman`).

    D-15.  `check_eof` is reached when the `lookup` bits of the *current level* are not there and
    judges only the bits from that level's start to the end of the input.  Bits of the
    unfinished symbol that earlier levels have consumed are never looked at again.  The model
    keeps this behaviour; `hdecodeX` additionally reports (ghost output, not in the code) through which
    ending it accepted: `laxAt`, computed from the window `check_eof` was called with — more than 7 bits
    consumed-or-judged behind the last complete symbol, or a zero among the consumed ones (`lax = true`);
    that this is "violates RFC 7541 §5.2" is a theorem (`laxAt_eq`), and the flagged set is enumerated exactly
    (`C15_huffman_lax_set_exact`). -/
namespace H3.Huffman
open H3.Bits
open H3.Gen.HuffDec (Level Entry)

/-! ### bitwin.rs -/

structure BitWindow where
  byte : Nat
  bit : Nat
  count : Nat
deriving Repr, DecidableEq

/-- `BitWindow::forwards` -/
def BitWindow.forwards (w : BitWindow) (step : Nat) : BitWindow :=
  let bit := w.bit + w.count
  { byte := w.byte + bit / 8, bit := bit % 8, count := step }

/-- `BitWindow::opposite_bit_window` -/
def BitWindow.opposite (w : BitWindow) : BitWindow :=
  { byte := w.byte, bit := w.bit, count := 8 - w.bit % 8 }

/-- first bit after the window -/
def BitWindow.endPos (w : BitWindow) : Nat := 8 * w.byte + w.bit + w.count

/-! ### decode.rs -/

/-- `read_bits(src, byte_offset, bit_offset, len)`; `none` is `Err(())`.  The two indexings are
    in range whenever the guard passes (`readBitsC` below indexes with `[·]?`;
    `H3.Huffman.readBitsC_eq`), `getD` never yields its default. -/
def readBits (src : List Nat) (byteOffset bitOffset len : Nat) : Option Nat :=
  if len = 0 ∨ len > 8 ∨ src.length * 8 < byteOffset * 8 + bitOffset + len then none
  else
    let byteOffset := byteOffset + bitOffset / 8
    let bitOffset := bitOffset - bitOffset / 8 * 8
    if bitOffset + len ≤ 8 then
      some ((((src.getD byteOffset 0) <<< bitOffset) % 256) >>> (8 - len))
    else
      let result := ((src.getD byteOffset 0) <<< 8) ||| (src.getD (byteOffset + 1) 0)
      some ((((result <<< bitOffset) % 65536) >>> (16 - len)) % 256)

inductive Err where
  /-- `Error::MissingBits(BitWindow)` -/
  | missingBits (w : BitWindow)
  /-- `Error::Unhandled(BitWindow, usize)` -/
  | unhandled (w : BitWindow) (v : Nat)
  /-- not in the code: the model's loop bound was reached (proved unreachable) -/
  | fuel
deriving Repr, DecidableEq

/-- `check_eof`: `true` is `Ok(None)` (end of the string accepted); it never yields a value. -/
def checkEof (w : BitWindow) (input : List Nat) : Except Err Unit :=
  if w.byte + 1 > input.length then .ok ()            -- "position is out-of-range"
  else if w.byte + 1 = input.length then              -- "position is on the last byte"
    let side := w.opposite
    match readBits input side.byte side.bit side.count with
    | none => .error (.missingBits side)
    | some rest =>
      let eofFiller := ((2 <<< (side.count - 1)) - 1) % 256
      if (rest &&& eofFiller) = eofFiller then .ok () else .error (.missingBits w)
  else .error (.missingBits w)

/-- Result of one `decode_next` call. -/
inductive Step where
  /-- `Ok(Some(x))` -/
  | sym (s : Nat)
  /-- `Ok(None)` -/
  | done
  | err (e : Err)
deriving Repr, DecidableEq

mutual
/-- `HuffmanDecoder::decode_next` (with `fetch_value` inlined); returns the mutated window. -/
def decodeNext : Level → BitWindow → List Nat → BitWindow × Step
  | .mk lookup table, w, input =>
    let w := w.forwards lookup
    match readBits input w.byte w.bit w.count with
    | some value => tableGet table value value w input
    | none =>
      match checkEof w input with
      | .ok () => (w, .done)
      | .error e => (w, .err e)
/-- `self.table.get(value)` followed by the dispatch on the entry; `i` counts down to it. -/
def tableGet : List Entry → Nat → Nat → BitWindow → List Nat → BitWindow × Step
  | [], _, value, w, _ => (w, .err (.unhandled w value))
  | e :: _, 0, _, w, input => entryGo e w input
  | _ :: es, i+1, value, w, input => tableGet es i value w input
def entryGo : Entry → BitWindow → List Nat → BitWindow × Step
  | .sym s, w, _ => (w, .sym s)
  | .sub l, w, input => decodeNext l w input
end

/-- RFC 7541 §5.2 on what follows the last complete symbol (which starts at bit `pos`): fewer
    than eight bits, all ones.  Not used by the model: the reference `laxAt` is proved equal to. -/
def padOK (input : List Nat) (pos : Nat) : Bool :=
  let tail := (bitsOf input).drop pos
  decide (tail.length ≤ 7) && tail.all (· == true)

/-- The D-15 flag, from the branch of `check_eof` that answered `Ok(None)`.  `symStart` = the bit at which the
    unfinished symbol starts (the end of the last complete one), `w'` = the window `check_eof` was called with (the
    window of the level whose `lookup` bits are not there).  `check_eof` judges the bits from that level's start
    to the end of the input only — none in the arm `Ordering::Greater`, the rest of the last byte in the arm
    `Ordering::Equal`; the bits between `symStart` and the level's start have been consumed by the levels above and
    are never looked at again.  Flag: consumed + judged bits are more than 7, or a consumed bit is zero.
    On every accepting run this is "the bits behind the last complete symbol are not a valid RFC 7541 §5.2
    padding" (`padOK`; `H3.Huffman.laxAt_eq`), and the set of flagged inputs is enumerated exactly by
    `C15_huffman_lax_set_exact`. -/
def laxAt (input : List Nat) (symStart : Nat) (w' : BitWindow) : Bool :=
  let levelStart := 8 * w'.byte + w'.bit
  let consumed := ((bitsOf input).drop symStart).take (levelStart - symStart)
  decide (7 < (levelStart - symStart) + (8 * input.length - levelStart)) || consumed.any (· == false)

/-- The loop `for byte in payload.hpack_decode() { decoded.push(byte?) }` around
    `DecodeIter::next`.  Second component: D-15 flag (`laxAt`: `true` = the accepted ending is not
    a valid padding). -/
def decodeAll (root : Level) : Nat → BitWindow → List Nat → Except Err (List Nat × Bool)
  | 0, _, _ => .error .fuel
  | fuel+1, w, input =>
    match decodeNext root w input with
    | (w', .sym s) =>
      match decodeAll root fuel w' input with
      | .ok (r, lax) => .ok (s :: r, lax)
      | .error e => .error e
    | (w', .done) => .ok ([], laxAt input w.endPos w')
    | (_, .err e) => .error e

/-- `Vec<u8>::hpack_decode()` collected, with the ghost flag. -/
def hdecodeX (input : List Nat) : Except Err (List Nat × Bool) :=
  decodeAll H3.Gen.HuffDec.root (8 * input.length + 1) ⟨0, 0, 0⟩ input

/-- `Vec<u8>::hpack_decode()` collected into `Result<Vec<u8>, Error>`. -/
def hdecode (input : List Nat) : Except Err (List Nat) :=
  match hdecodeX input with
  | .ok (r, _) => .ok r
  | .error e => .error e

/-- `true` iff the decoder accepts `input` through the lax branch (site D-15). -/
def lax (input : List Nat) : Bool :=
  match hdecodeX input with
  | .ok (_, l) => l
  | .error _ => false

/-! ### decode.rs / bitwin.rs once more, machine arithmetic made explicit

    The functions above with every operation of the Rust code that can go wrong written out: `+` and `*`
    on `u32` (`BitWindow`'s fields, the parameters of `read_bits`) answer `none` when the result does not
    fit 32 bits, `-` when it would go below zero, a shift when its amount reaches the width of the shifted
    type (`u8`: 8, `u16`: 16), `src[i]` when `i` is out of range, `src.len() as u32` when the cast loses
    bits.  `none` is a panic in a build with overflow checks and a wrapped value (a wrong comparison)
    in a build without.  Nothing else differs from the functions above. -/

/-- `a + b` on `u32` -/
def add32 (a b : Nat) : Option Nat := if a + b < 2 ^ 32 then some (a + b) else none
/-- `a * b` on `u32` -/
def mul32 (a b : Nat) : Option Nat := if a * b < 2 ^ 32 then some (a * b) else none
/-- `a - b` on an unsigned type -/
def subU (a b : Nat) : Option Nat := if b ≤ a then some (a - b) else none

/-- `BitWindow::forwards` -/
def BitWindow.forwardsC (w : BitWindow) (step : Nat) : Option BitWindow :=
  match add32 w.bit w.count with                       -- self.bit += self.count
  | none => none
  | some bit =>
    match add32 w.byte (bit / 8) with                  -- self.byte += self.bit / 8
    | none => none
    | some byte => some { byte := byte, bit := bit % 8, count := step }

/-- `BitWindow::opposite_bit_window` -/
def BitWindow.oppositeC (w : BitWindow) : Option BitWindow :=
  match subU 8 (w.bit % 8) with                        -- 8 - (self.bit % 8)
  | none => none
  | some count => some { byte := w.byte, bit := w.bit, count := count }

/-- the two arms of `read_bits` behind its guard and the reduction of `bit_offset` -/
def readBitsArmsC (src : List Nat) (byteOffset bitOffset len : Nat) : Option Nat :=
  match add32 bitOffset len with                       -- bit_offset + len <= 8
  | none => none
  | some e =>
    if e ≤ 8 then
      match src[byteOffset]?, subU 8 len with          -- (src[byte_offset] << bit_offset) >> (8 - len)
      | some x, some sh =>
        if bitOffset < 8 ∧ sh < 8 then some (((x <<< bitOffset) % 256) >>> sh) else none
      | _, _ => none
    else
      match src[byteOffset]?, src[byteOffset + 1]?, subU 16 len with
      | some x, some y, some sh =>
        let result := (x <<< 8) ||| y                  -- (src[..] as u16) << 8 | src[.. + 1] as u16
        if bitOffset < 16 ∧ sh < 16 then some ((((result <<< bitOffset) % 65536) >>> sh) % 256) else none
      | _, _, _ => none

/-- `read_bits`; outer `none`: an operation overflows; `some none`: `Err(())` -/
def readBitsC (src : List Nat) (byteOffset bitOffset len : Nat) : Option (Option Nat) :=
  if len = 0 ∨ len > 8 then some none                  -- `||` short-circuits
  else if ¬ src.length < 2 ^ 32 then none              -- src.len() as u32
  else
    match mul32 src.length 8, mul32 byteOffset 8 with  -- src.len() as u32 * 8, byte_offset * 8
    | some total, some a =>
      match add32 a bitOffset with
      | none => none
      | some b =>
        match add32 b len with
        | none => none
        | some c =>
          if total < c then some none
          else
            match add32 byteOffset (bitOffset / 8), mul32 (bitOffset / 8) 8 with
            | some byteOffset', some m =>               -- byte_offset += bit_offset / 8
              match subU bitOffset m with               -- bit_offset -= (bit_offset / 8) * 8
              | none => none
              | some bitOffset' => (readBitsArmsC src byteOffset' bitOffset' len).map some
            | _, _ => none
    | _, _ => none

/-- `((2u16 << (side.count - 1)) - 1) as u8` -/
def eofFillerC (count : Nat) : Option Nat :=
  match subU count 1 with
  | none => none
  | some c1 =>
    if ¬ c1 < 16 then none
    else (subU ((2 <<< c1) % 65536) 1).map (· % 256)

/-- `check_eof` -/
def checkEofC (w : BitWindow) (input : List Nat) : Option (Except Err Unit) :=
  match add32 w.byte 1 with                            -- (bit_pos.byte + 1) as usize
  | none => none
  | some b1 =>
    if b1 > input.length then some (.ok ())
    else if b1 = input.length then
      match w.oppositeC with
      | none => none
      | some side =>
        match readBitsC input side.byte side.bit side.count with
        | none => none
        | some none => some (.error (.missingBits side))
        | some (some rest) =>
          match eofFillerC side.count with
          | none => none
          | some eofFiller =>
            if (rest &&& eofFiller) = eofFiller then some (.ok ()) else some (.error (.missingBits w))
    else some (.error (.missingBits w))

mutual
/-- `HuffmanDecoder::decode_next` -/
def decodeNextC : Level → BitWindow → List Nat → Option (BitWindow × Step)
  | .mk lookup table, w, input =>
    match w.forwardsC lookup with
    | none => none
    | some w =>
      match readBitsC input w.byte w.bit w.count with
      | none => none
      | some (some value) => tableGetC table value value w input
      | some none =>
        match checkEofC w input with
        | none => none
        | some (.ok ()) => some (w, .done)
        | some (.error e) => some (w, .err e)
def tableGetC : List Entry → Nat → Nat → BitWindow → List Nat → Option (BitWindow × Step)
  | [], _, value, w, _ => some (w, .err (.unhandled w value))
  | e :: _, 0, _, w, input => entryGoC e w input
  | _ :: es, i+1, value, w, input => tableGetC es i value w input
def entryGoC : Entry → BitWindow → List Nat → Option (BitWindow × Step)
  | .sym s, w, _ => some (w, .sym s)
  | .sub l, w, input => decodeNextC l w input
end

/-- the loop around `DecodeIter::next` -/
def decodeAllC (root : Level) : Nat → BitWindow → List Nat → Option (Except Err (List Nat × Bool))
  | 0, _, _ => some (.error .fuel)
  | fuel+1, w, input =>
    match decodeNextC root w input with
    | none => none
    | some (w', .sym s) =>
      match decodeAllC root fuel w' input with
      | none => none
      | some (.ok (r, lax)) => some (.ok (s :: r, lax))
      | some (.error e) => some (.error e)
    | some (w', .done) => some (.ok ([], laxAt input w.endPos w'))
    | some (_, .err e) => some (.error e)

/-- `Vec<u8>::hpack_decode()` collected, every machine operation checked: `none` = one of them overflows
    (for inputs of 2^29 bytes or more: D-06u), otherwise `some (hdecodeX input)`
    (`C15_huffman_positions_fit`). -/
def hdecodeC (input : List Nat) : Option (Except Err (List Nat × Bool)) :=
  decodeAllC H3.Gen.HuffDec.root (8 * input.length + 1) ⟨0, 0, 0⟩ input

/-! ### encode.rs -/

open H3.Gen.HuffEnc (PAD_LEFT PAD_RIGHT)

structure Encoder where
  pos : BitWindow
  buffer : List Nat
deriving Repr, DecidableEq

/-- `HuffmanEncoder::ensure_free_space` with positions in `Nat` (the capacity reservation has no visible effect
    as long as `7 * end_range.byte` fits `u32`: `ensureFreeSpaceC` below, site D-15e). -/
def ensureFreeSpace (e : Encoder) (bitCount : Nat) : Encoder :=
  let endRange := (e.pos.forwards bitCount).forwards 0
  if e.buffer.length > endRange.byte then e
  else
    let forward := endRange.byte - e.buffer.length + (if endRange.bit > 0 then 1 else 0)
    { e with buffer := e.buffer ++ List.replicate forward 255 }

/-- `write_bits(out, pos, value)`; `none` = panic (a failing `debug_assert!` or an index out of
    range).  `u8` shifts drop the bits shifted out. -/
def writeBits (out : List Nat) (pos : BitWindow) (value : Nat) : Option (List Nat) :=
  if ¬ (pos.bit < 8 ∧ pos.count ≤ 8 ∧ pos.count > 0) then none
  else
    match out[pos.byte]? with
    | none => none
    | some cur =>
      if (cur ||| PAD_LEFT.getD pos.bit 0) ≠ 255 then none        -- debug_assert_eq!
      else if pos.bit + pos.count ≤ 8 then
        let padLeft := cur ||| PAD_RIGHT.getD (8 - pos.bit) 0
        let shifted := ((value <<< (8 - pos.bit - pos.count)) % 256) ||| PAD_LEFT.getD pos.bit 0
        let padRight := PAD_RIGHT.getD (8 - pos.count - pos.bit) 0
        some (out.set pos.byte ((padLeft &&& shifted) ||| padRight))
      else
        let split := 8 - pos.bit
        let padLeft := cur ||| PAD_RIGHT.getD split 0
        let shifted := (value >>> (pos.count - split)) ||| PAD_LEFT.getD pos.bit 0
        let out := out.set pos.byte (padLeft &&& shifted)
        let rem := 8 - (pos.count - split)
        if pos.byte + 1 < out.length then
          some (out.set (pos.byte + 1) (((value <<< rem) % 256) ||| PAD_RIGHT.getD rem 0))
        else none

/-- the `for i in 0..encode_value.buffer.len()` loop of `put` -/
def putParts : List Nat → Nat → Encoder → Option Encoder
  | [], _, e => some e
  | part :: ps, rest, e =>
    let pos := e.pos.forwards (if rest < 8 then rest else 8)
    let rest := rest - pos.count
    match writeBits e.buffer pos part with
    | none => none
    | some buf => putParts ps rest { pos := pos, buffer := buf }

/-- `HuffmanEncoder::put`; `none` = panic. -/
def put (e : Encoder) (code : Nat) : Option Encoder :=
  match H3.Gen.HuffEnc.raw[code]? with
  | none => none
  | some (bitCount, buffer) => putParts buffer bitCount (ensureFreeSpace e bitCount)

def putAll : List Nat → Encoder → Option Encoder
  | [], e => some e
  | c :: cs, e =>
    match put e c with
    | none => none
    | some e' => putAll cs e'

/-- `Vec<u8>::hpack_encode()` with positions in `Nat`; `none` = panic (never for byte strings).  This is the
    code for codings whose positions fit `u32` (`hencodeC` below, `C15_huffman_encoder_positions_fit`: coding
    length `L` with `7·L < 2^32`); beyond that the code overflows (D-15e) or, repaired, answers `Err`. -/
def hencode? (s : List Nat) : Option (List Nat) :=
  (putAll s ⟨⟨0, 0, 0⟩, []⟩).map (·.buffer)

/-- Total version for callers that have established that `s` is a byte string. -/
def hencode (s : List Nat) : List Nat := (hencode? s).getD []

/-! ### encode.rs / bitwin.rs once more, machine arithmetic made explicit

    The encoder with every operation of the Rust code that can go wrong written out, as for the decoder above:
    `+` / `*` on `u32` (`BitWindow::forwards`, `7 * end_range.byte`, `pos.bit + pos.count`, `pos.byte + 1`) answer
    `none` when the result does not fit 32 bits.  `none` is a panic in a build with overflow checks; in a build
    without, `7 * end_range.byte` wraps harmlessly (a smaller reservation) and a wrapped `byte` writes at the
    wrong place or indexes out of range.  The reservation `self.buffer.reserve((7 * end_range.byte) / 4)` is
    computed only when `self.buffer.capacity() <= end_range.byte`: the capacity of the `Vec` is part of the checked
    state, and what `Vec` does when it has to grow is a PARAMETER (`grow cap required`, the new capacity; `Vec`
    promises `required ≤ grow cap required`, nothing more) — the theorems hold for every `grow`.

    D-15e (site of the send side).  The functions above (`hencode?`, positions in `Nat`) are the code only as
    long as the positions fit: `C15_huffman_encoder_positions_fit`.  `g` = the shape of `put` in the tree under
    check (`H3.Gen.HuffEnc.hugeCodingRefused`): `false` = as it was (overflows), `true` = the repaired one
    (`put` answers `Err(Error { .. })` once `buffer_pos.byte > u32::MAX - 8`, the reservation is computed in
    `usize`). -/

structure EncoderC where
  pos : BitWindow
  buffer : List Nat
  /-- `self.buffer.capacity()` -/
  cap : Nat
deriving Repr, DecidableEq

/-- forget the capacity -/
def EncoderC.toE (e : EncoderC) : Encoder := ⟨e.pos, e.buffer⟩

/-- `Vec::reserve(additional)`: the capacity afterwards -/
def vecReserve (grow : Nat → Nat → Nat) (cap len additional : Nat) : Nat :=
  if cap - len < additional then grow cap (len + additional) else cap

/-- `k` times `Vec::push`: the capacity afterwards -/
def vecPushes (grow : Nat → Nat → Nat) : Nat → Nat → Nat → Nat
  | 0, cap, _ => cap
  | k+1, cap, len => vecPushes grow k (if len = cap then grow cap (len + 1) else cap) (len + 1)

/-- the capacity growth of the standard library at the time of writing (`RawVec::grow_amortized` for `u8`:
    `max(8, max(2·cap, required))`); used by examples and by the driver's prediction of the boundary probes
    only, never by a theorem -/
def stdGrow (cap required : Nat) : Nat := max 8 (max (2 * cap) required)

/-- `if self.buffer.capacity() <= end_range.byte as usize { self.buffer.reserve(((7 * end_range.byte) / 4) as
    usize); }`: the capacity afterwards; `none` = `7 * end_range.byte` does not fit `u32` (old shape; the
    repaired shape multiplies in `usize`, saturating) -/
def reserveC (g : Bool) (grow : Nat → Nat → Nat) (cap len byte : Nat) : Option Nat :=
  if cap ≤ byte then
    if g then some (vecReserve grow cap len (7 * byte / 4))
    else
      match mul32 7 byte with
      | none => none
      | some m => some (vecReserve grow cap len (m / 4))
  else some cap

/-- `HuffmanEncoder::ensure_free_space` -/
def ensureFreeSpaceC (g : Bool) (grow : Nat → Nat → Nat) (e : EncoderC) (bitCount : Nat) : Option EncoderC :=
  match e.pos.forwardsC bitCount with                   -- end_range.forwards(bit_count)
  | none => none
  | some w1 =>
    match w1.forwardsC 0 with                           -- end_range.forwards(0)
    | none => none
    | some endRange =>
      if e.buffer.length > endRange.byte then some e
      else
        match reserveC g grow e.cap e.buffer.length endRange.byte with
        | none => none
        | some cap =>
          -- `end_range.byte as usize - self.buffer.len()` cannot go below zero behind the guard
          let forward := endRange.byte - e.buffer.length + (if endRange.bit > 0 then 1 else 0)
          some { pos := e.pos, buffer := e.buffer ++ List.replicate forward 255,
                 cap := vecPushes grow forward cap e.buffer.length }

/-- `write_bits`.  Behind the three `debug_assert!`s (`bit < 8`, `1 ≤ count ≤ 8`) every `8 - …`, `count - split`,
    every shift amount (`< 8`) and every index into `PAD_LEFT` / `PAD_RIGHT` (`≤ 8`) of the body is in range
    (`H3.Huffman.writeBits_ops_in_range`); what remains are `pos.bit + pos.count` and, in the two-byte arm,
    `pos.byte + 1` on `u32`; the slice indexings are checked in `writeBits` already. -/
def writeBitsC (out : List Nat) (pos : BitWindow) (value : Nat) : Option (List Nat) :=
  if ¬ (pos.bit < 8 ∧ pos.count ≤ 8 ∧ pos.count > 0) then none
  else
    match add32 pos.bit pos.count with                  -- (pos.bit + pos.count) <= 8
    | none => none
    | some e =>
      if e ≤ 8 then writeBits out pos value
      else
        match add32 pos.byte 1 with                     -- out[(pos.byte + 1) as usize]
        | none => none
        | some _ => writeBits out pos value

/-- the loop of `put` -/
def putPartsC : List Nat → Nat → EncoderC → Option EncoderC
  | [], _, e => some e
  | part :: ps, rest, e =>
    match e.pos.forwardsC (if rest < 8 then rest else 8) with
    | none => none
    | some pos =>
      match subU rest pos.count with                    -- rest -= self.buffer_pos.count
      | none => none
      | some rest =>
        match writeBitsC e.buffer pos part with
        | none => none
        | some buf => putPartsC ps rest { e with pos := pos, buffer := buf }

/-- the repaired `put` refuses (`Err(Error { .. })`) once the next symbol might leave the `u32` positions -/
def putRefuses (g : Bool) (e : EncoderC) : Bool := g && decide (e.pos.byte > 2 ^ 32 - 1 - 8)

/-- `HuffmanEncoder::put`; outer `none` = panic / overflow, `some none` = `Err` -/
def putC (g : Bool) (grow : Nat → Nat → Nat) (e : EncoderC) (code : Nat) : Option (Option EncoderC) :=
  match H3.Gen.HuffEnc.raw[code]? with
  | none => none
  | some (bitCount, buffer) =>
    if putRefuses g e = true then some none
    else
      match ensureFreeSpaceC g grow e bitCount with
      | none => none
      | some e1 => (putPartsC buffer bitCount e1).map some

/-- `Result<Vec<u8>, Error>` of `hpack_encode` -/
inductive EncOut where
  | ok (bytes : List Nat)
  /-- `Err(Error { .. })`: the coding does not fit the `u32` positions (repaired shape only) -/
  | tooLong
deriving Repr, DecidableEq

def putAllC (g : Bool) (grow : Nat → Nat → Nat) : List Nat → EncoderC → Option EncOut
  | [], e => some (.ok e.buffer)
  | c :: cs, e =>
    match putC g grow e c with
    | none => none
    | some none => some .tooLong
    | some (some e') => putAllC g grow cs e'

/-- `Vec<u8>::hpack_encode()`, every machine operation checked: `none` = one of them overflows (a panic in a
    build with overflow checks).  `C15_huffman_encoder_positions_fit`: `some (.ok (hencode s))` for every byte
    string whose coding has `L` bytes with `7·L < 2^32`, whatever `g` and `grow`; `none` for the old shape from
    `2^32` bytes on (and from `7·byte ≥ 2^32` on whenever the reservation is computed). -/
def hencodeC (g : Bool) (grow : Nat → Nat → Nat) (s : List Nat) : Option EncOut :=
  putAllC g grow s ⟨⟨0, 0, 0⟩, [], 0⟩

/-- the encoder of the tree under check -/
def hencodeT (grow : Nat → Nat → Nat) (s : List Nat) : Option EncOut :=
  hencodeC H3.Gen.HuffEnc.hugeCodingRefused grow s

end H3.Huffman
