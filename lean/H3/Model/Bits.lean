/-! Bit strings of byte strings (most significant bit first), shared by the Huffman model
    (`H3.Huffman`) and the RFC 7541 specification (`H3.Spec.Huffman`).  No proofs here. -/
namespace H3.Bits

/-- The `n` low bits of `x`, most significant first. -/
def bitsN : Nat → Nat → List Bool
  | 0, _ => []
  | n+1, x => (x / 2 ^ n % 2 == 1) :: bitsN n x

/-- Big-endian value of a bit string. -/
def val : List Bool → Nat
  | [] => 0
  | b :: r => b.toNat * 2 ^ r.length + val r

/-- All bits of a byte string, in wire order. -/
def bitsOf : List Nat → List Bool
  | [] => []
  | b :: r => bitsN 8 b ++ bitsOf r

/-- Groups of eight bits as bytes; an incomplete last group is filled with ones (this is what
    both RFC 7541 §5.2 and the encoder do). -/
def pack : List Bool → List Nat
  | b7 :: b6 :: b5 :: b4 :: b3 :: b2 :: b1 :: b0 :: r =>
      val [b7, b6, b5, b4, b3, b2, b1, b0] :: pack r
  | [] => []
  | l => [val (l ++ List.replicate (8 - l.length) true)]

end H3.Bits
