/-! Model of how a server connection learns that requests have ended and decides that
`accept` is done.

`h3/src/server/connection.rs`: `ongoing_streams`, the request-end channel
(`request_end_send` / `request_end_recv`), `poll_requests_completion`, the `Ok(None)` decision
of `poll_accept_request_stream_internal`, `recv_closing`.  `h3/src/server/request.rs` +
`h3/src/server/stream.rs`: `RequestEnd` (its `Drop` sends the stream ID into the channel),
owned through an `Arc` by the `RequestResolver` from the moment `accept` hands the request
out (D-09 repair), passed on to the `RequestStream`, cloned by `split`.

`handles` holds one occurrence of `id` per live owner of request `id`'s `Arc<RequestEnd>`
(resolver, stream, or the two halves); the last owner going away is `RequestEnd::drop`.  Keyed
by stream ID: faithful because the transport never hands out the same stream ID twice.

`inFlight`/`wake` model the task that awaits `accept()`: it is polled only when woken.  What
wakes it: a new call, a stream or control-stream bytes arriving from the peer, a recorded
connection error, and a send into the request-end channel (tokio's unbounded mpsc wakes the
receiver's registered waker — assumption, exercised by the correspondence run).  No local
`shutdown` is in this model (`sent_closing = None`): every arriving stream is handed out; the
reject path is `H3.Goaway`'s. -/
namespace H3.Drain

structure State where
  /-- `ongoing_streams`. -/
  ongoing : List Nat := []
  /-- the request-end channel, oldest first. -/
  chan : List Nat := []
  /-- live owners of `RequestEnd`s (multiset of stream IDs). -/
  handles : List Nat := []
  /-- `recv_closing.is_some()`. -/
  recvClosing : Bool := false
  /-- peer GOAWAY frames waiting on the control stream. -/
  ctl : Nat := 0
  /-- transport: streams opened by the peer, not yet taken by `accept`. -/
  incoming : List Nat := []
  /-- an `accept()` call is outstanding. -/
  inFlight : Bool := false
  /-- its task has been woken and not polled since. -/
  wake : Bool := false
  /-- a connection error has been recorded. -/
  failed : Bool := false
deriving Repr, DecidableEq

inductive Ev where
  /-- the peer opens request stream `id`. -/
  | arrive (id : Nat)
  /-- a GOAWAY frame arrives on the peer's control stream. -/
  | goaway
  /-- the application calls `accept()`. -/
  | callAccept
  /-- the executor gives the accept task a turn (a no-op unless it is woken). -/
  | poll
  /-- `split()`: one more owner of request `id`. -/
  | clone (id : Nat)
  /-- one owner of request `id` goes away (dropped, consumed by a failing
      `resolve_request`, task killed, …). -/
  | dropHandle (id : Nat)
  /-- some task records a connection error. -/
  | connError
deriving Repr, DecidableEq

inductive Obs where
  /-- `accept` returned the resolver of request `id`. -/
  | handedOut (id : Nat)
  | acceptNone
  | acceptPending
  | acceptErr
deriving Repr, DecidableEq

/-- `poll_requests_completion`: every ID waiting in the channel leaves `ongoing_streams`. -/
def removeAll (ongoing chan : List Nat) : List Nat := ongoing.filter (fun i => !chan.contains i)

/-- wake the accept task if there is one. -/
def wakeUp (s : State) : State := { s with wake := s.wake || s.inFlight }

/-- one owner of `id` goes away; the last one is `RequestEnd::drop`: send + wake. -/
def dropHandle (s : State) (id : Nat) : State :=
  if s.handles.contains id then
    let h := s.handles.erase id
    if h.contains id then { s with handles := h }
    else wakeUp { s with handles := h, chan := s.chan ++ [id] }
  else s

/-- the decision at the end of `poll_accept_request_stream_internal` (nothing to take). -/
def verdict (s : State) : State × List Obs :=
  if s.recvClosing && s.ongoing.isEmpty then ({ s with inFlight := false }, [.acceptNone])
  else (s, [.acceptPending])

def takeStream (s : State) : State × List Obs :=
  match s.incoming with
  | id :: rest =>
    ({ s with incoming := rest, ongoing := id :: s.ongoing, handles := id :: s.handles,
              inFlight := false }, [.handedOut id])
  | [] => verdict s

/-- the start of a poll: `poll_control` (a waiting GOAWAY sets `recv_closing`) and
    `poll_requests_completion` (the channel is emptied into `ongoing_streams`). -/
def catchUp (s : State) : State :=
  { s with wake := false, recvClosing := s.recvClosing || decide (0 < s.ctl), ctl := 0,
           ongoing := removeAll s.ongoing s.chan, chan := [] }

/-- one poll of the outstanding `accept()`: `poll_control`, `poll_requests_completion`, then
    the transport. -/
def poll (s : State) : State × List Obs :=
  if s.inFlight && s.wake then
    let s1 := catchUp s
    if s1.failed then ({ s1 with inFlight := false }, [.acceptErr]) else takeStream s1
  else (s, [])

def step (s : State) : Ev → State × List Obs
  | .arrive id => (wakeUp { s with incoming := s.incoming ++ [id] }, [])
  | .goaway => (wakeUp { s with ctl := s.ctl + 1 }, [])
  | .callAccept => if s.inFlight then (s, []) else ({ s with inFlight := true, wake := true }, [])
  | .poll => poll s
  | .clone id => (if s.handles.contains id then { s with handles := id :: s.handles } else s, [])
  | .dropHandle id => (dropHandle s id, [])
  | .connError => (wakeUp { s with failed := true }, [])

/-- one step of a history together with what it showed. -/
structure Step where
  ev : Ev
  obs : List Obs
deriving Repr, DecidableEq

def trace : State → List Ev → List Step
  | _, [] => []
  | s, e :: es => let r := step s e; ⟨e, r.2⟩ :: trace r.1 es

def run : State → List Ev → State
  | s, [] => s
  | s, e :: es => run (step s e).1 es

end H3.Drain
