/-! Model of `h3/src/proto/varint.rs` (QUIC variable-length integers) and the
    RFC 9000 §16 specification they are compared with.

    Bytes are `Nat`s in a `List Nat`; well-formed byte strings satisfy `∀ b ∈ bs, b < 256`.
    `u64` values are `Nat`s; every theorem that needs it carries the bound explicitly. -/
namespace H3.Varint

abbrev Bytes := List Nat

/-- All elements are bytes. -/
def WF (bs : Bytes) : Prop := ∀ b ∈ bs, b < 256

/-- `VarInt::from_u64`: accepted iff `x < 2^62`. -/
def fromU64 (x : Nat) : Option Nat := if x < 2^62 then some x else none

/-- `VarInt::size`.  (`none` models `unreachable!` for a malformed VarInt.) -/
def size? (x : Nat) : Option Nat :=
  if x < 2^6 then some 1
  else if x < 2^14 then some 2
  else if x < 2^30 then some 4
  else if x < 2^62 then some 8
  else none

def size (x : Nat) : Nat :=
  if x < 2^6 then 1 else if x < 2^14 then 2 else if x < 2^30 then 4 else 8

/-- `VarInt::encoded_size(first)` = `2usize.pow(first >> 6)`. -/
def encodedSize (first : Nat) : Nat := 2 ^ (first / 64)

/-- big-endian bytes of `x`, `n` of them (`put_u16/u32/u64`). -/
def be : Nat → Nat → Bytes
  | 0, _ => []
  | n+1, x => be n (x / 256) ++ [x % 256]

/-- value of a big-endian byte string (`from_be_bytes`). -/
def beVal (bs : Bytes) : Nat := bs.foldl (fun a b => a * 256 + b) 0

/-- `VarInt::encode`; `none` models the `unreachable!` arm. -/
def encode? (x : Nat) : Option Bytes :=
  if x < 2^6 then some [x]
  else if x < 2^14 then some (be 2 (2^14 + x))
  else if x < 2^30 then some (be 4 (2^31 + x))
  else if x < 2^62 then some (be 8 (2^63 + 2^62 + x))
  else none

/-- Total version used where the caller has established `x < 2^62`. -/
def encode (x : Nat) : Bytes := (encode? x).getD []

/-- `BufMutExt::write_var`: `VarInt::from_u64(x).unwrap().encode(..)`; `none` = panic. -/
def writeVar (x : Nat) : Option Bytes := (fromU64 x).bind encode?

inductive DecRes where
  /-- decoded value and the unread rest -/
  | ok (v : Nat) (rest : Bytes)
  /-- `UnexpectedEnd(k)`; the Rust code has consumed the first byte when `k > 0` -/
  | endOf (k : Nat)
deriving Repr, DecidableEq

/-- `VarInt::decode`. -/
def decode : Bytes → DecRes
  | [] => .endOf 0
  | b0 :: r =>
    let tag := b0 / 64
    let lo := b0 % 64
    if tag = 0 then .ok lo r
    else if tag = 1 then
      if r.length < 1 then .endOf 1 else .ok (beVal (lo :: r.take 1)) (r.drop 1)
    else if tag = 2 then
      if r.length < 3 then .endOf 2 else .ok (beVal (lo :: r.take 3)) (r.drop 3)
    else
      if r.length < 7 then .endOf 3 else .ok (beVal (lo :: r.take 7)) (r.drop 7)

/-! ### RFC 9000 §16, written independently of the code's structure -/

/-- Length announced by the two most significant bits of the first byte. -/
def rfcLen (b0 : Nat) : Nat := 2 ^ (b0 / 64)

/-- RFC 9000 §16 value: the first `rfcLen` bytes read as one big-endian number, the two
    length bits removed. -/
def rfcValue (bs : Bytes) : Nat :=
  match bs with
  | [] => 0
  | b0 :: _ => beVal (bs.take (rfcLen b0)) % 2 ^ (8 * rfcLen b0 - 2)

/-- The specification of decoding: `some (value, rest)` iff the announced length is there. -/
def rfcDecode (bs : Bytes) : Option (Nat × Bytes) :=
  match bs with
  | [] => none
  | b0 :: _ => if bs.length < rfcLen b0 then none else some (rfcValue bs, bs.drop (rfcLen b0))

end H3.Varint
