import H3.Gen.PrefixInt
/-! Model of `h3/src/qpack/prefix_int.rs` (RFC 7541 §5.1 prefixed integers as used by QPACK).

    `n` is the prefix size (`size: u8`), bytes are `Nat`s (`< 256` for well-formed input), the
    decoded value is a `u64` modelled as `Nat` together with the proved bound
    `C15_prefix_int_no_wrap` (an `ok` value is `< 2^64`, so `value += …` never wraps).
    `&`, `>>`, `<<` on bytes are written arithmetically where that is the same function
    (`b & 127 = b % 128`, `b & 128 == 0 ⇔ b / 128 % 2 = 0`, `first >> n = first / 2^n`). -/
namespace H3.PrefixInt
open H3.Gen.PrefixInt (MAX_POWER)

inductive Res where
  /-- `Ok((flags, value))` and the unread rest of the buffer -/
  | ok (flags v : Nat) (rest : List Nat)
  /-- `Err(Error::Overflow)` -/
  | overflow
  /-- `Err(Error::UnexpectedEnd)` -/
  | endOf
deriving Repr, DecidableEq

/-- The `loop` of `decode`: `value` and `power` so far, continuation bytes still unread. -/
def decLoop (flags : Nat) : Nat → Nat → List Nat → Res
  | _, _, [] => .endOf
  | value, power, b :: r =>
    let value := value + (b % 128) * 2 ^ power        -- value += (byte & 127) << power
    let power := power + 7
    if b / 128 % 2 = 0 then .ok flags value r           -- byte & 128 == 0
    else if power ≥ MAX_POWER then .overflow
    else decLoop flags value power r

/-- `prefix_int::decode(size, buf)`.  `none` = panic: `assert!(size <= 8)`; for `size = 0` the
    `u8` shift `0xFF >> 8` (overflow panic in builds with overflow checks, as the harness is). -/
def decode? (n : Nat) (bs : List Nat) : Option Res :=
  if n > 8 then none
  else
    match bs with
    | [] => some .endOf
    | first :: r =>
      if n = 0 then none
      else
        let flags := first / 2 ^ n % 256                -- ((first as usize) >> size) as u8
        let mask := 255 / 2 ^ (8 - n)                   -- 0xFF >> (8 - size)
        let first := first % (mask + 1)                 -- first &= mask
        if first < mask then some (.ok flags first r)
        else some (decLoop flags mask 0 r)

/-- Total version for callers that pass a literal prefix size in 1..8. -/
def decode (n : Nat) (bs : List Nat) : Res := (decode? n bs).getD .endOf

/-- `decode(size, buf)` for a `Buf` made of several chunks (`Chain`, `BufList`, a rope of received pieces):
    the function reads through `Buf::get_u8`, which hands out the bytes of the chunks in order — what it
    sees is their concatenation, wherever the cuts are (`C15_decode_chunking_independent`; engine
    `pint decm` runs the real function over such a `Buf`). -/
def decodeM? (n : Nat) (chunks : List (List Nat)) : Option Res := decode? n chunks.flatten

/-- `while remaining >= 128 { write(remaining % 128 + 128); remaining /= 128 } write(remaining)` -/
def encLoop (remaining : Nat) : List Nat :=
  if remaining ≥ 128 then (remaining % 128 + 128) :: encLoop (remaining / 128) else [remaining]
decreasing_by omega

/-- `prefix_int::encode(size, flags, value, buf)`: the bytes written.  `none` = panic
    (`assert!(size <= 8)`).  `flags: u8`, `value: u64`. -/
def encode? (n flags v : Nat) : Option (List Nat) :=
  if n > 8 then none
  else
    let mask := (2 ^ n - 1) % 256                       -- !(0xFF << size) as u8
    let flags := (flags * 2 ^ n) % 256                  -- ((flags as usize) << size) as u8
    if v < mask then some [flags ||| v]
    else some ((mask ||| flags) :: encLoop (v - mask))

/-- Total version for callers that pass a literal prefix size in 0..8. -/
def encode (n flags v : Nat) : List Nat := (encode? n flags v).getD []

/-! ### RFC 7541 §5.1, written from the text (pseudo-code "decode I from the next N bits") -/

/-- `I = Σ (bᵢ & 127)·2^(7i)` over the continuation bytes up to and including the first one
    whose most significant bit is clear; `none` if there is no such byte. -/
def rfcCont : List Nat → Option (Nat × List Nat)
  | [] => none
  | b :: r =>
    if b < 128 then some (b, r)
    else match rfcCont r with
      | none => none
      | some (v, rest) => some (b % 128 + 128 * v, rest)

/-- RFC 7541 §5.1 value of an `n`-bit-prefix integer at the head of `bs` (any size, no range
    limit), with the unread rest; `none` when the encoding is incomplete. -/
def rfcDecode (n : Nat) (bs : List Nat) : Option (Nat × List Nat) :=
  match bs with
  | [] => none
  | first :: r =>
    let i := first % 2 ^ n
    if i < 2 ^ n - 1 then some (i, r)
    else match rfcCont r with
      | none => none
      | some (v, rest) => some (2 ^ n - 1 + v, rest)

/-- number of continuation bytes of the encoding at the head of `r` (all of `r` if unterminated) -/
def contLen : List Nat → Nat
  | [] => 0
  | b :: r => if b < 128 then 1 else 1 + contLen r

end H3.PrefixInt
