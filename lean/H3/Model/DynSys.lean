import H3.Model.Dyn
/-! # The connected system: encoder, decoder, the two instruction streams and the header blocks

This is the model of the *harness* (`harness/src/e_c20.rs` does the same thing around the real
`Encoder`/`Decoder`): a state machine whose events are the property's schedule choices.

* `encode sid fields`   — `Encoder::encode`; instructions appended to the encoder stream, block queued on `sid`
* `deliverEnc k`        — next `k` encoder-stream instructions handed to `Decoder::on_encoder_recv` in one call;
                          an `InsertCountIncrement` it writes is appended to the decoder stream
* `deliverBlock sid`    — `Decoder::decode_header` on the oldest undecoded block of stream `sid` (streams are
                          ordered); on success with `dyn_ref` the harness calls `ack_header(sid)`
* `deliverAck k`        — next `k` decoder-stream instructions handed to `Encoder::on_decoder_recv` in one call
* `setCapacity c`       — `set_dynamic_table_size` on the encoder's table
* `cancel sid`          — the decoder abandons stream `sid` (`stream_canceled`); nothing on it is decoded any more

Cut deliveries (`stepCut`, case-line op `denc:<k>@<j>.<m>,…`): the same `k` instructions in a `Buf` of several chunks.
`Decoder::parse_instruction` reads `read.chunk()` only, so an instruction that crosses a chunk boundary is not parsed and
nothing behind it either, however often `on_encoder_recv` is called on that `Buf` (D-20f): the call is a whole delivery of
the instructions in front of the first one that has a cut INSIDE it (`cutLen`).  `atRisk` counts the streams that could
become blocked (RFC 9204 2.1.2) for the observation O-20e.

The first error or panic of any call ends the history (`Res.err` / `Res.panic`). -/
namespace H3.Dyn

/-- absolute (1-based) index a representation refers to, given the Base -/
def Rep.absRef (base : Nat) : Rep → Option Nat
  | .indexedDyn rel | .litDyn rel _ => some (base - rel)
  | .indexedPost i | .litPost i _ => some (base + i + 1)
  | _ => none

structure BlockRec where
  orig : List Field
  blk : Block
  required : Nat
  base : Nat
  /-- `max_size` of the encoder's table when the block was encoded (monitor for `#D-20c`) -/
  encMax : Nat
  /-- ghost: the reference map the encoder tracks for this block -/
  refMap : RefMap
deriving DecidableEq, Repr

def BlockRec.ofEncoded (fields : List Field) (e : Encoded) (encMax : Nat) : BlockRec :=
  { orig := fields, blk := e.block, required := e.required, base := e.base, encMax := encMax, refMap := e.refMap }

def BlockRec.refs (b : BlockRec) : List Nat := b.blk.reps.filterMap (Rep.absRef b.base)

structure StreamSt where
  done : List BlockRec := []      -- decoded, oldest first
  todo : List BlockRec := []      -- not yet decoded, oldest first
  /-- how many of `done ++ todo` the encoder has released (`untrack_block`) -/
  npop : Nat := 0
  cancelled : Bool := false
deriving DecidableEq, Repr

structure Sys where
  enc : Table
  dec : Table
  encQ : List EncInstr := []
  encDel : Nat := 0
  decQ : List DecInstr := []
  decDel : Nat := 0
  streams : List (Nat × StreamSt) := []
deriving DecidableEq, Repr

inductive Event where
  | encode (sid : Nat) (fields : List Field)
  | deliverEnc (k : Nat)
  | deliverBlock (sid : Nat)
  | deliverAck (k : Nat)
  | setCapacity (c : Nat)
  | cancel (sid : Nat)
deriving DecidableEq, Repr

inductive Out where
  | encoded (e : Encoded)
  | encRecv (n total : Nat) (inc : Option Nat)
  | blockOk (fields : List Field)
  | blocked (r : Nat)
  | skip
  | ackRecv (n : Nat)
  | capSet (ins : List EncInstr)
  | cancelled
deriving DecidableEq, Repr

def Sys.stream (s : Sys) (sid : Nat) : StreamSt := (aget s.streams sid).getD {}

def Sys.init (cap bl : Nat) : Res Sys :=
  (Table.configured cap bl).bind fun t => .ok { enc := t, dec := t }

/-- ghost bookkeeping of what the encoder released while processing decoder instructions: the
    encoder pops the front of the stream's queue, i.e. the oldest block not yet released. -/
def popGhost (enc : Table) (streams : List (Nat × StreamSt)) : DecInstr → List (Nat × StreamSt)
  | .ack sid =>
    let st := (aget streams sid).getD {}
    aset streams sid { st with npop := st.npop + 1 }
  | .cancel sid =>
    let st := (aget streams sid).getD {}
    let q := ((aget enc.trackBlocks sid).getD []).length
    aset streams sid { st with npop := st.npop + min 2 q }
  | .incr _ => streams

/-- `Encoder::on_decoder_recv` with the ghost bookkeeping threaded through -/
def deliverAcks : Table → List (Nat × StreamSt) → List DecInstr → Res (Table × List (Nat × StreamSt))
  | t, ss, [] => .ok (t, ss)
  | t, ss, i :: r =>
    (decoderInstr t i).bind fun t1 => deliverAcks t1 (popGhost t ss i) r

/-- the `InsertCountIncrement` written by one `on_encoder_recv` call, if any -/
def incrOf : List DecInstr → Option Nat
  | [.incr n] => some n
  | _ => none

def step (s : Sys) : Event → Res (Sys × Out)
  | .encode sid fields =>
    (encode s.enc sid fields).bind fun e =>
      let st := s.stream sid
      let b : BlockRec := .ofEncoded fields e s.enc.maxSize
      .ok ({ s with enc := e.table, encQ := s.encQ ++ e.instrs,
                    streams := aset s.streams sid { st with todo := st.todo ++ [b] } }, .encoded e)
  | .deliverEnc k =>
    let ins := (s.encQ.drop s.encDel).take k
    match onEncoderRecv s.dec ins with
    | (_, _, .err e) => .err e
    | (_, _, .panic p) => .panic p
    | (d, w, .ok total) =>
      .ok ({ s with dec := d, encDel := s.encDel + ins.length, decQ := s.decQ ++ w },
           .encRecv ins.length total (incrOf w))
  | .deliverBlock sid =>
    let st := s.stream sid
    match st.cancelled, st.todo with
    | true, _ | _, [] => .ok (s, .skip)
    | false, b :: rest =>
      match decodeHeader s.dec b.blk with
      | .err (.missingRefs r) => .ok (s, .blocked r)
      | .err e => .err e
      | .panic p => .panic p
      | .ok (fs, dynRef) =>
        .ok ({ s with streams := aset s.streams sid { st with done := st.done ++ [b], todo := rest },
                      decQ := if dynRef then s.decQ ++ [.ack sid] else s.decQ }, .blockOk fs)
  | .deliverAck k =>
    let ins := (s.decQ.drop s.decDel).take k
    (deliverAcks s.enc s.streams ins).bind fun (t, ss) =>
      .ok ({ s with enc := t, streams := ss, decDel := s.decDel + ins.length }, .ackRecv ins.length)
  | .setCapacity c =>
    (setDynamicTableSize s.enc c).bind fun (t, ins) =>
      .ok ({ s with enc := t, encQ := s.encQ ++ ins }, .capSet ins)
  | .cancel sid =>
    let st := s.stream sid
    .ok ({ s with streams := aset s.streams sid { st with cancelled := true }, decQ := s.decQ ++ [.cancel sid] },
         .cancelled)

/-- run a history; `none` = it was ended by an error or panic -/
def run : Sys → List Event → Option Sys
  | s, [] => some s
  | s, e :: r => match step s e with
    | .ok (s1, _) => run s1 r
    | _ => none

/-! ### cut deliveries (D-20f) and the blocked-stream count (O-20e) -/

/-- the instruction is ONE byte on the encoder stream (Duplicate / Set Dynamic Table Capacity whose value fits the
    5-bit prefix); every insertion has at least two bytes (index or name length, value length) -/
def EncInstr.oneByte : EncInstr → Bool
  | .dup r => r < 31
  | .sizeUpdate n => n < 31
  | _ => false

/-- cut `(j, m)`: `m = 0` the boundary in front of instruction `j` of the delivery, `m ≥ 1` inside it (an instruction of
    one byte cannot be cut; a `j` beyond the delivery cuts nothing) -/
def innerCut (ins : List EncInstr) (c : Nat × Nat) : Bool :=
  c.2 != 0 && (ins.drop c.1).head?.any (fun i => !i.oneByte)

/-- number of instructions `on_encoder_recv` processes: those in front of the first instruction with a cut inside it -/
def cutLen (ins : List EncInstr) (cuts : List (Nat × Nat)) : Nat :=
  ((cuts.filter (innerCut ins)).map (·.1)).foldl min ins.length

/-- the instructions `deliverEnc k` hands over -/
def Sys.handed (s : Sys) (k : Nat) : List EncInstr := (s.encQ.drop s.encDel).take k

/-- `deliverEnc k` in chunks -/
def stepCut (s : Sys) (k : Nat) (cuts : List (Nat × Nat)) : Res (Sys × Out) :=
  step s (.deliverEnc (cutLen (s.handed k) cuts))

/-- RFC 9204 2.1.2 "streams that could become blocked": streams with a section the encoder has not released
    (unacknowledged) whose Required Insert Count is larger than the encoder's known received count -/
def atRisk (s : Sys) : Nat :=
  (s.streams.filter fun (_, st) => ((st.done ++ st.todo).drop st.npop).any fun b => b.required > s.enc.lkr).length

end H3.Dyn
