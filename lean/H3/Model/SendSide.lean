import H3.Model.WriteBuf
/-! Model of *what h3 writes on which stream*: `ConnectionInner::new` /
    `send_control_stream_headers`, `shutdown`, `poll_grease_stream` (`h3/src/connection.rs`),
    client `send_request`, server `accept`/`send_response`, `RequestStream::{send_data,
    send_trailers, finish}`, `TryFrom<Config> for frame::Settings` (`h3/src/config.rs`).

    A small-step machine.  The steps are the API calls (each *starts* a call: it hands a
    `WriteBuf` to the stream's `send_data`) and `poll sid k`: the transport of stream `sid`
    takes up to `k` bytes of the current chunk (one `poll_write`; `k = 0` is `Pending`).  A run
    is any list of steps, so "every order of API calls × every acceptance pattern" is a
    universally quantified `List Step`.  A call on a handle whose previous call has not
    completed is not a step of any program (R-14: calls are awaited to completion; the
    `&mut self` receivers make anything else impossible without dropping the future) — the
    machine ignores such a step.  Error paths that return before `stream::write` (header too
    big for the peer's limit, QPACK failure) write nothing and are no steps.

    Field sections are opaque byte strings (QPACK is C11's).  The ids GOAWAY carries are
    parameters (their choice is C08's).  Every random draw of a `grease()` function is a
    parameter of the step that draws it. -/
namespace H3.SendSide
open H3.Varint H3.WriteBuf H3.Gen.Consts H3.Gen.WriteBuf

/-- `config::Config` (`send_grease` + `config::Settings`). -/
structure Config where
  grease : Bool
  mfs : Nat
  wt : Bool
  ec : Bool
  dg : Bool
  wts : Nat
deriving Repr, DecidableEq

def boolVal (b : Bool) : Nat := if b then 1 else 0

/-- value of the config field that `TryFrom<Config>` passes to `insert` (names from the
    generated `configSettingOrder`; the translator refuses unknown ones) -/
def fieldVal (c : Config) (f : String) : Nat :=
  if f = "mfs" then c.mfs
  else if f = "ec" then boolVal c.ec
  else if f = "wt" then boolVal c.wt
  else if f = "dg" then boolVal c.dg
  else if f = "wts" then c.wts
  else 0

/-- `TryFrom<Config> for frame::Settings` as the entry list it builds: the grease entry first
    (`gN` = the draw of `SettingId::grease()`), then the fixed inserts in source order.  (That
    no `insert` can fail with `Repeated`/`Exceeded` is `C14_grease_ids` + the length.) -/
def configSettings (c : Config) (gN : Nat) : List (Nat × Nat) :=
  (if c.grease then [(greaseId gN, CONFIG_GREASE_SETTING_VALUE)] else []) ++
  configSettingOrder.map (fun e => (e.1, fieldVal c e.2))

inductive Kind where
  | control | qpackEnc | qpackDec | greaseStream | request
deriving Repr, DecidableEq

/-- the send side of one stream as h3 and its transport see it -/
structure Stream where
  kind : Kind
  /-- every byte the transport has taken, in order -/
  log : Bytes
  /-- `poll_finish` has been called -/
  fin : Bool
  /-- the `WriteBuf` given to `send_data` that `poll_ready` has not drained yet -/
  cur : Option WB
  /-- the call in progress is `finish()` (or the grease stream): `poll_finish` follows the
      write -/
  finAfter : Bool
  /-- `RequestStream.send_grease_frame` -/
  grease : Bool
deriving Repr, DecidableEq

structure State where
  server : Bool
  cfg : Config
  streams : List (Nat × Stream)
  /-- `Builder::build` has returned (the three initial writes completed) -/
  built : Bool
  /-- `ConnectionInner.send_grease_frame` (server) / `SendRequest.send_grease_frame` (client) -/
  connGrease : Bool
  /-- `send_grease_stream_flag` -/
  greaseStreamFlag : Bool
deriving Repr, DecidableEq

/-- the `i`-th unidirectional stream this endpoint opens (RFC 9000 §2.1) -/
def uniId (server : Bool) (i : Nat) : Nat := 4 * i + (if server then 3 else 2)

def mkStream (kind : Kind) (cur : Option WB) (finAfter grease : Bool) : Stream :=
  { kind := kind, log := [], fin := false, cur := cur, finAfter := finAfter, grease := grease }

/-- `ConnectionInner::new`: control, QPACK encoder and QPACK decoder streams are opened in
    this order, then `send_control_stream_headers` hands the three headers to them.
    `none`: the conversion of the configuration panicked or was refused — nothing is written. -/
def init (server : Bool) (cfg : Config) (gN : Nat) : Option State :=
  match fromUniHeader (.control (configSettings cfg gN)), fromUniHeader .encoder,
        fromUniHeader .decoder with
  | some c, some e, some d =>
    some { server := server, cfg := cfg,
           streams := [(uniId server 0, mkStream .control (some c) false false),
                       (uniId server 1, mkStream .qpackEnc (some e) false false),
                       (uniId server 2, mkStream .qpackDec (some d) false false)],
           built := false, connGrease := cfg.grease, greaseStreamFlag := cfg.grease }
  | _, _, _ => none

/-- no call in progress on this handle, and the send side is still open (a QUIC transport
    refuses `send_data` after `finish`, RFC 9000 §3.1) -/
def Stream.idle (s : Stream) : Bool := s.cur.isNone && !s.finAfter && !s.fin

/-- `stream::write(&mut stream, data)` begins: `data.into()` (a panic leaves the stream
    untouched), `send_data` -/
def Stream.start (s : Stream) (data : Option WB) : Stream :=
  match data with
  | none => s
  | some w => { s with cur := some w }

/-- one `poll_write` of the transport for up to `k` bytes, inside `poll_ready`; when the buffer
    is empty `poll_ready` returns and, in `finish()`, `poll_finish` follows -/
def Stream.poll (s : Stream) (k : Nat) : Stream :=
  match s.cur with
  | none => s
  | some w =>
    match w.step k with
    | none => s
    | some (out, w') =>
      if w'.remaining = 0 then
        { s with log := s.log ++ out, cur := none, fin := s.fin || s.finAfter, finAfter := false }
      else { s with log := s.log ++ out, cur := some w' }

inductive Step where
  /-- client `send_request`: the transport opened bidirectional stream `sid`, the HEADERS
      frame with field section `fs` is written -/
  | sendRequest (sid : Nat) (fs : Bytes)
  /-- server `accept`: the peer's request stream `sid` is handed to the application -/
  | acceptRequest (sid : Nat)
  /-- `send_response`, `send_trailers` (and the 431 answer of `resolve_request`) -/
  | sendHeaders (sid : Nat) (fs : Bytes)
  | sendData (sid : Nat) (buf : Bytes)
  /-- `finish()`; `gN` = the draw of `FrameType::grease()` should a grease frame be sent -/
  | finish (sid : Nat) (gN : Nat)
  /-- `shutdown`: `Frame::Goaway(id)` on the control stream -/
  | goaway (id : Nat)
  /-- `poll_grease_stream`: the transport opened `sid`; draws of `StreamType::grease()` and
      `FrameType::grease()` -/
  | greaseStream (sid : Nat) (gS gF : Nat)
  /-- the transport of stream `sid` takes up to `k` bytes -/
  | poll (sid : Nat) (k : Nat)
deriving Repr, DecidableEq

def updateStream (ss : List (Nat × Stream)) (sid : Nat) (f : Stream → Stream) :
    List (Nat × Stream) :=
  ss.map (fun e => if e.1 = sid then (e.1, f e.2) else e)

def hasStream (ss : List (Nat × Stream)) (sid : Nat) : Bool := ss.any (fun e => e.1 == sid)

/-- the three initial writes have completed -/
def initialDone (ss : List (Nat × Stream)) : Bool :=
  ss.all (fun e => e.2.kind == .request || e.2.kind == .greaseStream || e.2.cur.isNone)

def onRequest (f : Stream → Stream) (s : Stream) : Stream :=
  if s.kind = .request ∧ s.idle = true then f s else s

def onControl (f : Stream → Stream) (s : Stream) : Stream :=
  if s.kind = .control ∧ s.idle = true then f s else s

/-- `finish()`: the grease frame first if this handle still has to send one, then
    `poll_finish` -/
def greaseThenFin (s : Stream) (data : Option WB) : Stream :=
  match data with
  | none => s
  | some w => { s with cur := some w, finAfter := true, grease := false }

def finishStream (gN : Nat) (s : Stream) : Stream :=
  if s.grease then greaseThenFin s (fromFrame (.grease (greaseId gN)))
  else { s with fin := true }

def step (st : State) : Step → State
  | .poll sid k =>
    let ss := updateStream st.streams sid (fun s => s.poll k)
    { st with streams := ss, built := st.built || initialDone ss }
  | .sendRequest sid fs =>
    if st.built ∧ st.server = false ∧ sid % 4 = 0 ∧ hasStream st.streams sid = false then
      { st with
        streams := st.streams ++
          [(sid, (mkStream .request none false st.connGrease).start (fromFrame (.headers fs)))],
        connGrease := false }
    else st
  | .acceptRequest sid =>
    if st.built ∧ st.server = true ∧ sid % 4 = 0 ∧ hasStream st.streams sid = false then
      { st with streams := st.streams ++ [(sid, mkStream .request none false st.connGrease)],
                connGrease := false }
    else st
  | .sendHeaders sid fs =>
    { st with streams :=
        updateStream st.streams sid (onRequest (fun s => s.start (fromFrame (.headers fs)))) }
  | .sendData sid buf =>
    { st with streams :=
        updateStream st.streams sid (onRequest (fun s => s.start (fromFrame (.data buf)))) }
  | .finish sid gN =>
    { st with streams := updateStream st.streams sid (onRequest (finishStream gN)) }
  | .goaway id =>
    if st.built then
      let f := onControl (fun s => s.start (fromFrame (.goaway id)))
      { st with streams := updateStream st.streams (uniId st.server 0) f }
    else st
  | .greaseStream sid gS gF =>
    if st.built ∧ st.greaseStreamFlag = true ∧ sid % 4 = uniId st.server 0 % 4 ∧
        hasStream st.streams sid = false then
      match fromPair (greaseId gS) (.grease (greaseId gF)) with
      | none => st
      | some w =>
        { st with streams := st.streams ++ [(sid, mkStream .greaseStream (some w) true false)],
                  greaseStreamFlag := false }
    else st

def run (st : State) (steps : List Step) : State := steps.foldl step st

/-! ### calls and events that END a send side where it is, or touch handles only

`Step` holds the calls that write.  The application and the peer can do more:

* `stop_stream(code)` — h3 resets the send side (RESET_STREAM);
* the peer's STOP_SENDING — the call in progress fails with `StreamTerminated`, so does every later
  one: nothing more is written;
* a call abandoned in mid-write (its future dropped together with the handle; outside R-14, but the
  bytes written so far stay written);
* `stop_sending(code)` and the peer's RESET_STREAM — the RECEIVE side; `split` — the same stream
  behind two handles; `SendRequest::clone` — another handle whose `send_grease_frame` flag is a COPY
  (every handle cloned before its first request sends a grease frame of its own).

In all of the first three the stream keeps the bytes it has, possibly ending inside a frame, and
never changes again: it is moved from `st.streams` to `frozen`.  Steps of `Step` that name a frozen
stream (or would create one with its id) do nothing. -/

structure XState where
  st : State
  /-- send sides that have ended where they were; the code if it was h3 that reset the stream -/
  frozen : List (Nat × Stream × Option Nat) := []
  /-- `send_grease_frame` of every `SendRequest` handle (handle 0 = the one `build` returned; its
      flag is `st.connGrease` until the first `cloneSender`) -/
  handles : List Bool := []
deriving Repr, DecidableEq

inductive XStep where
  | api (s : Step)
  /-- client `send_request` through handle `h` -/
  | sendRequestVia (h : Nat) (sid : Nat) (fs : Bytes)
  /-- `SendRequest::clone` of handle `h` -/
  | cloneSender (h : Nat)
  /-- `RequestStream::stop_stream(code)` -/
  | stopStream (sid code : Nat)
  /-- STOP_SENDING from the peer -/
  | peerStop (sid code : Nat)
  /-- the call in progress on `sid` and its handle are dropped -/
  | abandon (sid : Nat)
  | stopSending (sid code : Nat)
  | peerReset (sid code : Nat)
  | split (sid : Nat)
deriving Repr, DecidableEq

/-- the stream a writing step names (`goaway`: the control stream) -/
def Step.target (server : Bool) : Step → Nat
  | .sendRequest sid _ => sid
  | .acceptRequest sid => sid
  | .sendHeaders sid _ => sid
  | .sendData sid _ => sid
  | .finish sid _ => sid
  | .goaway _ => uniId server 0
  | .greaseStream sid _ _ => sid
  | .poll sid _ => sid

def isFrozen (x : XState) (sid : Nat) : Bool := x.frozen.any (fun e => e.1 == sid)

/-- the send side of `sid` ends where it is -/
def freeze (x : XState) (sid : Nat) (code : Option Nat) : XState :=
  { x with
    st := { x.st with streams := x.st.streams.filter (fun e => e.1 != sid) },
    frozen := x.frozen ++ (x.st.streams.filter (fun e => e.1 == sid)).map
      (fun e => (e.1, { e.2 with cur := none, finAfter := false }, code)) }

/-- `stop_stream` on a send side that had ended already (the peer's STOP_SENDING): h3 still resets
    it; the first code stays (`reset` is idempotent in the transport) -/
def resetCode (x : XState) (sid code : Nat) : XState :=
  { x with frozen := x.frozen.map (fun e =>
      if e.1 == sid && e.2.2.isNone then (e.1, e.2.1, some code) else e) }

/-- the handles' flags once there is more than one handle -/
def handleFlags (x : XState) : List Bool := if x.handles.isEmpty then [x.st.connGrease] else x.handles

def setFlag (l : List Bool) (h : Nat) (b : Bool) : List Bool := l.set h b

def xstep (x : XState) : XStep → XState
  | .api s => if isFrozen x (s.target x.st.server) then x else { x with st := step x.st s }
  | .sendRequestVia h sid fs =>
    if isFrozen x sid then x
    else
      let g := (handleFlags x).getD h false
      let st' := step { x.st with connGrease := g } (.sendRequest sid fs)
      -- the flag of handle `h` is cleared exactly when the request was written
      let sent := hasStream st'.streams sid && !hasStream x.st.streams sid
      { x with st := st', handles := setFlag (handleFlags x) h (if sent then false else g) }
  | .cloneSender h =>
    let fl := handleFlags x
    { x with handles := fl ++ [fl.getD h false] }
  | .stopStream sid code => if sid % 4 = 0 then resetCode (freeze x sid (some code)) sid code else x
  | .peerStop sid _ => freeze x sid none
  | .abandon sid => freeze x sid none
  | .stopSending _ _ => x
  | .peerReset _ _ => x
  | .split _ => x

def xrun (x : XState) (steps : List XStep) : XState := steps.foldl xstep x

end H3.SendSide
