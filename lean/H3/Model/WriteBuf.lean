import H3.Model.Varint
import H3.Gen.Consts
import H3.Gen.WriteBuf
/-! Model of the send-side encoding of `h3/src/stream.rs` and `h3/src/proto/frame.rs`:

    * `Frame::encode` per variant (`encodeFrame`), `simple_frame_encode`, `Settings::encode`,
      `PushPromise::encode`, `FrameType::grease`/`SettingId::grease`/`StreamType::grease`
      (`greaseId n`, `n` = the `fastrand` draw);
    * `WriteBuf` — a fixed header array of `WRITE_BUF_ENCODE_SIZE` bytes with `len`/`pos` and
      an optional frame payload — with its `From` conversions and its `Buf` implementation
      (`remaining`, `chunk`, `advance`);
    * `stream::write()` = `send_data` then `poll_ready` until done, against an *acceptance
      script*: one entry per `poll_write` of the transport = the number of bytes it is willing
      to take at that moment (`0` = `Pending`).

    Panics are explicit: `none`.  They are `write_var` on a value ≥ 2^62, running out of the
    fixed array while encoding, and `Bytes::advance` past the end of the payload.  The payload
    (`B: Buf`) is one contiguous byte string (the harness uses `Bytes`). -/
namespace H3.WriteBuf
open H3.Varint H3.Gen.Consts H3.Gen.WriteBuf

/-- `Frame<B>` as the send side builds it. -/
inductive SFrame where
  | data (payload : Bytes)
  | headers (block : Bytes)
  | cancelPush (id : Nat)
  | settings (entries : List (Nat × Nat))
  | pushPromise (id : Nat) (encoded : Bytes)
  | goaway (id : Nat)
  | maxPushId (id : Nat)
  | webTransport (session : Nat)
  /-- `Frame::Grease`; `ty` is what `FrameType::grease()` returned -/
  | grease (ty : Nat)
deriving Repr, DecidableEq

/-- `fastrand::u64(0..GREASE_RANGE_END) * 0x1f + 0x21` for the draw `n` (no `u64` wrap:
    `C14_grease_ids`). -/
def greaseId (n : Nat) : Nat := n * GREASE_MUL + GREASE_ADD

/-- `VarInt::from_u64(x).unwrap().size()` (`Settings::len`, `PushPromise::len`). -/
def sizeOf? (x : Nat) : Option Nat := (fromU64 x).bind size?

/-- `simple_frame_encode(ty, id, buf)`. -/
def simpleFrame (ty id : Nat) : Option Bytes := do
  let t ← writeVar ty
  let sz ← size? id
  let l ← writeVar sz
  let v ← encode? id
  pure (t ++ l ++ v)

/-- `FrameHeader::len` of `Settings`. -/
def settingsLen? : List (Nat × Nat) → Option Nat
  | [] => some 0
  | (id, v) :: r => do
    let a ← sizeOf? id
    let b ← sizeOf? v
    let c ← settingsLen? r
    pure (a + b + c)

/-- the `for (id, val) in entries { id.encode(buf); buf.write_var(*val) }` loop -/
def settingsPairs? : List (Nat × Nat) → Option Bytes
  | [] => some []
  | (id, v) :: r => do
    let a ← writeVar id
    let b ← writeVar v
    let c ← settingsPairs? r
    pure (a ++ b ++ c)

/-- `Settings::encode`: type, length, pairs — the whole frame goes into the header array. -/
def settingsEncode (es : List (Nat × Nat)) : Option Bytes := do
  let t ← writeVar FRAME_SETTINGS
  let n ← settingsLen? es
  let l ← writeVar n
  let p ← settingsPairs? es
  pure (t ++ l ++ p)

/-- `Frame::encode`: what goes into the header array. -/
def encodeFrame : SFrame → Option Bytes
  | .data p => do
    let t ← writeVar FRAME_DATA
    let l ← writeVar p.length
    pure (t ++ l)
  | .headers b => do
    let t ← writeVar FRAME_HEADERS
    let l ← writeVar b.length
    pure (t ++ l)
  | .settings es => settingsEncode es
  | .pushPromise id enc => do
    -- `PushPromise::encode` = `encode_header` followed by `buf.put(self.encoded.clone())`:
    -- the field section is copied into the header array although `payload()` yields it too
    let t ← writeVar FRAME_PUSH_PROMISE
    let sz ← sizeOf? id
    let l ← writeVar (sz + enc.length)
    let i ← writeVar id
    pure (t ++ l ++ i ++ enc)
  | .cancelPush id => simpleFrame FRAME_CANCEL_PUSH id
  | .goaway id => simpleFrame FRAME_GOAWAY id
  | .maxPushId id => simpleFrame FRAME_MAX_PUSH_ID id
  | .grease ty => do
    let t ← writeVar ty
    let l ← writeVar GREASE_FRAME_LEN
    pure (t ++ l ++ GREASE_FRAME_PAYLOAD)
  | .webTransport sid => do
    let t ← writeVar FRAME_WEBTRANSPORT_BI_STREAM
    let s ← writeVar sid
    pure (t ++ s)

/-- `Frame::payload()`. -/
def framePayload : SFrame → Option Bytes
  | .data p => some p
  | .headers b => some b
  | .pushPromise _ e => some e
  | _ => none

/-- `WriteBuf<B>`; `payload` is `frame.and_then(payload)`, i.e. what is left of it. -/
structure WB where
  buf : Bytes
  len : Nat
  pos : Nat
  payload : Option Bytes
deriving Repr, DecidableEq

/-- `Self { buf: [0; WRITE_BUF_ENCODE_SIZE], len: 0, pos: 0, frame }` -/
def WB.new (payload : Option Bytes) : WB :=
  { buf := List.replicate WRITE_BUF_ENCODE_SIZE 0, len := 0, pos := 0, payload := payload }

/-- Writing `bs` through `&mut self.buf[self.len..]` and
    `self.len = WRITE_BUF_ENCODE_SIZE - buf_mut.remaining_mut()`.  The `BufMut` of a slice
    panics when it is full. -/
def WB.put (w : WB) (bs : Bytes) : Option WB :=
  if w.len + bs.length ≤ WRITE_BUF_ENCODE_SIZE then
    some { w with buf := w.buf.take w.len ++ bs ++ w.buf.drop (w.len + bs.length),
                  len := w.len + bs.length }
  else none

/-- encode a value (`none` = its encoder panicked) into the array -/
def WB.putOpt (w : WB) (bs : Option Bytes) : Option WB := bs.bind w.put

/-- `From<StreamType>`. -/
def fromStreamType (ty : Nat) : Option WB := (WB.new none).putOpt (writeVar ty)

/-- `UniStreamHeader`. -/
inductive UniHeader where
  | control (settings : List (Nat × Nat))
  | webTransportUni (session : Nat)
  | encoder
  | decoder
deriving Repr, DecidableEq

/-- `Encode for UniStreamHeader`. -/
def encodeUniHeader : UniHeader → Option Bytes
  | .control es => do
    let t ← writeVar STREAM_CONTROL
    let s ← settingsEncode es
    pure (t ++ s)
  | .webTransportUni sid => do
    let t ← writeVar STREAM_WEBTRANSPORT_UNI
    let s ← writeVar sid
    pure (t ++ s)
  | .encoder => writeVar STREAM_ENCODER
  | .decoder => writeVar STREAM_DECODER

/-- `From<UniStreamHeader>`. -/
def fromUniHeader (h : UniHeader) : Option WB := (WB.new none).putOpt (encodeUniHeader h)

/-- `From<BidiStreamHeader>` (`WebTransportBidi(session_id)`). -/
def fromBidiHeader (sid : Nat) : Option WB :=
  (WB.new none).putOpt (do
    let t ← writeVar STREAM_WEBTRANSPORT_BIDI
    let s ← writeVar sid
    pure (t ++ s))

/-- `From<Frame<B>>`. -/
def fromFrame (f : SFrame) : Option WB := (WB.new (framePayload f)).putOpt (encodeFrame f)

/-- `From<(StreamType, Frame<B>)>`: the stream type, then the frame header. -/
def fromPair (ty : Nat) (f : SFrame) : Option WB :=
  ((WB.new (framePayload f)).putOpt (writeVar ty)).bind (·.putOpt (encodeFrame f))

/-! ### `impl Buf for WriteBuf` -/

/-- `self.frame.as_ref().and_then(|f| f.payload())` as bytes (nothing when there is none) -/
def WB.pay (w : WB) : Bytes :=
  match w.payload with
  | some p => p
  | none => []

/-- `Buf::remaining`. -/
def WB.remaining (w : WB) : Nat := w.len - w.pos + w.pay.length

/-- `Buf::chunk`: the rest of the header while there is one, then the payload. -/
def WB.chunk (w : WB) : Bytes :=
  if w.len - w.pos > 0 then (w.buf.take w.len).drop w.pos else w.pay

/-- `Buf::advance`: the header part first, what is left of `cnt` goes to the payload's own
    `advance` (`Bytes::advance` panics beyond its end); a frame without payload swallows any
    excess silently. -/
def WB.advance (w : WB) (cnt : Nat) : Option WB :=
  let rh := w.len - w.pos
  let advanced := if rh > 0 then min cnt rh else 0
  let w1 := { w with pos := w.pos + advanced }
  let rest := cnt - advanced
  match w.payload with
  | some p => if rest ≤ p.length then some { w1 with payload := some (p.drop rest) } else none
  | none => some w1

/-- What is still to be yielded (the abstract content of the buffer). -/
def WB.view (w : WB) : Bytes := (w.buf.take w.len).drop w.pos ++ w.pay

/-! ### the transport and `stream::write` -/

/-- One `poll_write(cx, data.chunk())` + `data.advance(written)` of a transport that is
    willing to take `k` bytes now: it gets the first `min k |chunk|` bytes of the chunk. -/
def WB.step (w : WB) (k : Nat) : Option (Bytes × WB) :=
  let c := w.chunk
  let n := min k c.length
  (w.advance n).map (fun w' => (c.take n, w'))

/-- The transport's `poll_ready` loop over an acceptance script: the bytes handed over, in
    order, and what is left of the buffer.  `none` = a panic. -/
def WB.drain : WB → List Nat → Option (Bytes × WB)
  | w, [] => some ([], w)
  | w, k :: ks =>
    match w.step k with
    | none => none
    | some (o, w') =>
      match WB.drain w' ks with
      | none => none
      | some (o', w'') => some (o ++ o', w'')

inductive WriteRes where
  /-- `write()` returned `Ok(())`; `out` went to the transport -/
  | ready (out : Bytes)
  /-- the script ended before the buffer was empty: `write()` is still pending -/
  | pending (out : Bytes) (left : WB)
  | panic
deriving Repr, DecidableEq

/-- `stream::write(stream, data)`: `data.into()` (may panic), `send_data`, then `poll_ready`
    until `has_remaining()` is false. -/
def write (data : Option WB) (script : List Nat) : WriteRes :=
  match data with
  | none => .panic
  | some w =>
    match w.drain script with
    | none => .panic
    | some (out, w') => if w'.remaining = 0 then .ready out else .pending out w'

/-! ### the same loop against a transport that can fail (C06: completion of the send calls)

The acceptance script above is what the peer's *flow control* does.  The peer can also end the
stream or the connection: after its STOP_SENDING the transport answers the next `poll_ready` /
`poll_finish` with `StreamTerminated { error_code }`, after a connection close / a timeout every
call — `poll_open_bidi` of a `send_request` waiting for stream credit included — answers the
`ConnectionErrorIncoming`.  `stream::write` returns that error through `?`; so do the API calls
built from it (`send_request` = `poll_open_bidi` + one write, `send_response` / `send_data` /
`send_trailers` = one write, `finish` = the grease frame if one is due + `poll_finish`). -/

/-- `StreamErrorIncoming` as a send-side call meets it -/
inductive WErr where
  /-- `StreamTerminated { error_code }`: the peer's STOP_SENDING has arrived -/
  | terminated (code : Nat)
  /-- `ConnectionErrorIncoming { .. }`: the peer closed the connection, or it timed out
      (`q` names the variant) -/
  | conn (q : Nat)
  | unknown
deriving Repr, DecidableEq

/-- one answer of the transport to a poll of a send-side call: inside `poll_ready` it takes up
    to `k` bytes of the current chunk (`take 0` = `Pending`); a call that moves no bytes
    (`poll_open_bidi`, `poll_finish`) reads `take 0` as `Pending` and any other `take` as `Ok`;
    `err e` = the call fails with `e` -/
inductive Acc where
  | take (k : Nat)
  | err (e : WErr)
deriving Repr, DecidableEq

inductive WriteResE where
  /-- `write()` returned `Ok(())`; `rest` = the answers not asked for -/
  | ready (out : Bytes) (rest : List Acc)
  /-- `write()` returned `Err(e)` after `out` had gone to the transport -/
  | failed (out : Bytes) (e : WErr)
  /-- the script ended before the buffer was empty: `write()` is still pending -/
  | pending (out : Bytes) (left : WB)
  | panic
deriving Repr, DecidableEq

/-- the `poll_ready` loop of `stream::write`: `while data.has_remaining()` one `poll_write`;
    `out` = what went to the transport so far -/
def WB.drainE : WB → Bytes → List Acc → WriteResE
  | w, out, [] => if w.remaining = 0 then .ready out [] else .pending out w
  | w, out, .err e :: r => if w.remaining = 0 then .ready out (.err e :: r) else .failed out e
  | w, out, .take k :: r =>
    if w.remaining = 0 then .ready out (.take k :: r)
    else match w.step k with
      | none => .panic
      | some (o, w') => WB.drainE w' (out ++ o) r

/-- `stream::write(stream, data)` against a transport that can fail. -/
def writeE (data : Option WB) (script : List Acc) : WriteResE :=
  match data with
  | none => .panic
  | some w => w.drainE [] script

/-- what an API call of the send side waits for, in order -/
inductive Stage where
  /-- a transport call that moves no bytes, polled until it is `Ready`: `poll_open_bidi`
      (stream credit), `poll_finish` -/
  | wait
  /-- one `stream::write` -/
  | write (w : WB)
deriving Repr, DecidableEq

inductive StageRes where
  | done (out : Bytes) (rest : List Acc)
  | failed (out : Bytes) (e : WErr)
  | pending (out : Bytes)
  | panic
deriving Repr, DecidableEq

def waitE (out : Bytes) : List Acc → StageRes
  | [] => .pending out
  | .take 0 :: r => waitE out r
  | .take (_ + 1) :: r => .done out r
  | .err e :: _ => .failed out e

def WriteResE.stage : WriteResE → StageRes
  | .ready out rest => .done out rest
  | .failed out e => .failed out e
  | .pending out _ => .pending out
  | .panic => .panic

def Stage.run : Stage → Bytes → List Acc → StageRes
  | .wait, out, sc => waitE out sc
  | .write w, out, sc => (w.drainE out sc).stage

inductive CallRes where
  /-- the call returned `Ok`; `out` = everything it wrote -/
  | ok (out : Bytes)
  /-- the call returned `Err(e)` after `out` had gone out -/
  | failed (out : Bytes) (e : WErr)
  /-- the script is exhausted and the call has not returned -/
  | pending (out : Bytes)
  | panic
deriving Repr, DecidableEq

def stagesE : List Stage → Bytes → List Acc → CallRes
  | [], out, _ => .ok out
  | s :: ss, out, sc =>
    match s.run out sc with
    | .done out' rest => stagesE ss out' rest
    | .failed out' e => .failed out' e
    | .pending out' => .pending out'
    | .panic => .panic

/-- an API call of the send side -/
structure SendCall where
  /-- client `send_request`: `poll_open_bidi` first -/
  opens : Bool := false
  /-- the `WriteBuf`s handed to `stream::write`, in order (`finish`: the grease frame when one
      is due, otherwise none) -/
  writes : List WB
  /-- `finish`: `poll_finish` at the end -/
  finishes : Bool := false
deriving Repr, DecidableEq

def SendCall.stages (c : SendCall) : List Stage :=
  (if c.opens then [Stage.wait] else []) ++ c.writes.map Stage.write ++
    (if c.finishes then [Stage.wait] else [])

/-- the call against the transport's answers -/
def callE (c : SendCall) (script : List Acc) : CallRes := stagesE c.stages [] script

/-- number of answers that let a stage make progress -/
def posTakes : List Acc → Nat
  | [] => 0
  | .take 0 :: r => posTakes r
  | .take (_ + 1) :: r => posTakes r + 1
  | .err _ :: r => posTakes r

def Stage.need : Stage → Nat
  | .wait => 1
  | .write w => w.remaining

def Stage.content : Stage → Bytes
  | .wait => []
  | .write w => w.view

/-- progress answers that certainly suffice: one per wait, one per byte -/
def SendCall.need (c : SendCall) : Nat := (c.stages.map Stage.need).sum

/-- everything the call writes when it succeeds -/
def SendCall.content (c : SendCall) : Bytes := (c.stages.map Stage.content).flatten

/-! ### a payload that is not contiguous

`Frame<B>` / `WriteBuf<B>` are generic in `B: Buf`: an application may hand `send_data` a
`bytes::buf::Chain`, a deque of `Bytes`, … — a `Buf` whose `chunk()` is only the first piece of
what `remaining()` counts.  `segs` is such a payload as its list of segments (segments may be
empty: `Bytes::new().chain(b)`).  `Frame::encode` takes the DATA length from `b.remaining()`,
`impl Buf for WriteBuf` forwards `remaining`/`chunk`/`advance` to the payload once the header array
is exhausted. -/

/-- `Buf::remaining` of a segmented buffer: the sum over the segments -/
def segsRemaining (cs : List Bytes) : Nat := (cs.map List.length).sum

/-- `Buf::chunk`: the first segment that has bytes (`Chain::chunk`: `a.chunk()` while
    `a.has_remaining()`, else `b.chunk()`); empty only when nothing remains (the `Buf` contract) -/
def segsChunk : List Bytes → Bytes
  | [] => []
  | c :: r => if 0 < c.length then c else segsChunk r

/-- `Buf::advance`: segment after segment (`Chain::advance`); `none` = the panic of the last
    segment's `advance` past its end -/
def segsAdvance : List Bytes → Nat → Option (List Bytes)
  | [], 0 => some []
  | [], _ + 1 => none
  | c :: r, cnt => if cnt ≤ c.length then some (c.drop cnt :: r) else segsAdvance r (cnt - c.length)

/-- a length taken from the payload the way the source does (`H3.Gen.WriteBuf.LenSrc`, read by the
    translator from the `Frame::Data` arm of `Frame::encode` and from `WriteBuf::remaining`) -/
def segsLenBy : LenSrc → List Bytes → Nat
  | .remaining, cs => segsRemaining cs
  | .chunkLen, cs => (segsChunk cs).length

/-- `WriteBuf<B>` for a segmented `B` -/
structure WBC where
  buf : Bytes
  len : Nat
  pos : Nat
  payload : Option (List Bytes)
deriving Repr, DecidableEq

/-- the same buffer with the payload in one piece -/
def WBC.flat (w : WBC) : WB :=
  { buf := w.buf, len := w.len, pos := w.pos, payload := w.payload.map List.flatten }

def WBC.ofWB (w : WB) (p : Option (List Bytes)) : WBC :=
  { buf := w.buf, len := w.len, pos := w.pos, payload := p }

/-- `Frame::Data(b).encode`: `FrameType::DATA`, then `write_var(b.remaining())` -/
def dataHeaderC (segs : List Bytes) : Option Bytes := do
  let t ← writeVar FRAME_DATA
  let l ← writeVar (segsLenBy DATA_LEN_SOURCE segs)
  pure (t ++ l)

/-- `From<Frame<B>>` for `Frame::Data(segs)` -/
def fromDataC (segs : List Bytes) : Option WBC :=
  ((WB.new none).putOpt (dataHeaderC segs)).map (WBC.ofWB · (some segs))

/-- `From<(StreamType, Frame<B>)>` for `Frame::Data(segs)` -/
def fromPairDataC (ty : Nat) (segs : List Bytes) : Option WBC :=
  (((WB.new none).putOpt (writeVar ty)).bind (·.putOpt (dataHeaderC segs))).map
    (WBC.ofWB · (some segs))

def WBC.pay (w : WBC) : List Bytes := w.payload.getD []

/-- `Buf::remaining`. -/
def WBC.remaining (w : WBC) : Nat := w.len - w.pos + segsLenBy WRITEBUF_REMAINING_SOURCE w.pay

/-- `Buf::chunk`: the rest of the header while there is one, then the payload's own `chunk()`. -/
def WBC.chunk (w : WBC) : Bytes :=
  if w.len - w.pos > 0 then (w.buf.take w.len).drop w.pos else segsChunk w.pay

/-- `Buf::advance`. -/
def WBC.advance (w : WBC) (cnt : Nat) : Option WBC :=
  let rh := w.len - w.pos
  let advanced := if rh > 0 then min cnt rh else 0
  let rest := cnt - advanced
  match w.payload with
  | some p => (segsAdvance p rest).map (fun p' => { w with pos := w.pos + advanced, payload := some p' })
  | none => some { w with pos := w.pos + advanced }

def WBC.step (w : WBC) (k : Nat) : Option (Bytes × WBC) :=
  let c := w.chunk
  let n := min k c.length
  (w.advance n).map (fun w' => (c.take n, w'))

def WBC.drain : WBC → List Nat → Option (Bytes × WBC)
  | w, [] => some ([], w)
  | w, k :: ks =>
    match w.step k with
    | none => none
    | some (o, w') =>
      match WBC.drain w' ks with
      | none => none
      | some (o', w'') => some (o ++ o', w'')

/-- `stream::write` with a segmented payload; `pending` carries the flattened rest -/
def writeC (data : Option WBC) (script : List Nat) : WriteRes :=
  match data with
  | none => .panic
  | some w =>
    match w.drain script with
    | none => .panic
    | some (out, w') => if w'.remaining = 0 then .ready out else .pending out w'.flat

end H3.WriteBuf
