import H3.Model.ErrCell
import H3.Gen.Consts
/-! Model of the transport-fault paths of the connection layer:

    * `ConnectionInner::new` + `send_control_stream_headers` (`h3/src/connection.rs`): the three
      `poll_open_send` calls, the `match control_send`, the `join3` of the three `stream::write`s, the
      `match control` — at the granularity of one poll of the `build` future, against an arbitrary
      transport (any state machine answering the calls `pending | ok | err`);
    * `CloseRawQuicConnection::{handle_quic_error_raw, close_raw_connection_with_h3_error}`
      (`h3/src/error/connection_error_creators.rs`), used while there is no connection object yet;
    * `handle_connection_error` as the driver uses it when nobody else holds the shared state
      (`raise`), and the error arms that feed it: a failed write on the own control stream
      (`send_control_stream_headers`, `shutdown`), a failed read on the peer's control stream
      (`poll_control`), a connection error from `poll_accept_recv` / `poll_type` / `poll_accept_bi`;
    * the tail of client `poll_close`: a server-initiated bidirectional stream (RFC 9114 §6.1).

    Nothing here can panic in the Rust (no `unwrap`/`expect`/index on these paths; `Option::take` and
    `.ok()` only), so the model has no panic outcome. -/
namespace H3.Setup
open H3.ErrCell (QErr Err CErr convert closeOf)
open H3.Gen.Consts

/-- `quic::StreamErrorIncoming` (`tag` stands for the boxed error) -/
inductive SErr where
  | conn (q : QErr)
  | terminated (code : Nat)
  | unknown (tag : Nat)
deriving Repr, DecidableEq

/-- what a transport call answers -/
inductive Ans where
  | pending
  | ok
  | err (e : SErr)
deriving Repr, DecidableEq

/-- The transport calls of the setup.  Streams are numbered in the order `new` opens them:
    0 = control, 1 = QPACK encoder, 2 = QPACK decoder. -/
inductive Call where
  /-- `poll_open_send`, the call that would open stream `k` -/
  | openSend (k : Nat)
  /-- `send_data` on stream `k` (synchronous: anything but `err` is `Ok`) -/
  | sendData (k : Nat)
  /-- `poll_ready` on stream `k` -/
  | pollReady (k : Nat)
deriving Repr, DecidableEq

/-- A transport is any state machine that answers the calls; nothing is assumed about it. -/
structure Transport (T : Type) where
  call : T → Call → T × Ans

/-! ### errors before the connection object exists -/

/-- `handle_quic_error_raw`: the error returned and the code `close` is called with, if it is -/
def rawQuic : QErr → CErr × Option Nat
  | .timeout => (.timeout, none)
  | .internal t => (.localApp CODE_H3_INTERNAL_ERROR t, some CODE_H3_INTERNAL_ERROR)
  | q => (.remote q, none)

/-- `close_raw_connection_with_h3_error` -/
def rawH3 (code tag : Nat) : CErr × Option Nat := (.localApp code tag, some code)

/-- the `match control_send` of `new`: the control stream could not be opened -/
def openCtlErr : SErr → CErr × Option Nat
  | .conn q => rawQuic q
  | .terminated _ => rawH3 CODE_H3_CLOSED_CRITICAL_STREAM 0
  | .unknown _ => rawH3 CODE_H3_CLOSED_CRITICAL_STREAM 1

/-! ### `handle_connection_error` on the driver, nobody else holding the shared state -/

/-- the driver's part of the error state: `handled_connection_error`, the codes `close` was called with -/
structure Drv where
  handled : Option CErr := none
  closes : List Nat := []
deriving Repr, DecidableEq

def closeCode (e : Err) : List Nat := ((closeOf e).map (·.1)).toList

/-- `handle_connection_error(e)` -/
def raise (d : Drv) (e : Err) : Drv × CErr :=
  match d.handled with
  | some h => (d, h)
  | none => ({ handled := some (convert e), closes := d.closes ++ closeCode e }, convert e)

/-- the three error arms behind a failed `stream::write` on the own control stream
    (`send_control_stream_headers`, `shutdown`) and behind a failed `poll_next` on the peer's
    control stream (`poll_control`): a connection error is passed on, a stopped / reset / broken
    control stream is H3_CLOSED_CRITICAL_STREAM (RFC 9114 §6.2.1) -/
def ctlStreamErr : SErr → Err
  | .conn q => .quic q
  | .terminated _ => .internal CODE_H3_CLOSED_CRITICAL_STREAM 0
  | .unknown _ => .internal CODE_H3_CLOSED_CRITICAL_STREAM 1

/-! ### `stream::write` -/

/-- state of one `stream::write` future inside `join3` (`MaybeDone`): not polled yet, `send_data`
    done and waiting for `poll_ready`, finished with its result (`none` = `Ok(())`) -/
inductive WSt where
  | start
  | flushing
  | done (r : Option SErr)
deriving Repr, DecidableEq

def WSt.isDone : WSt → Bool
  | .done _ => true
  | _ => false

/-- `poll_ready` until it is ready -/
def pollFlush {T : Type} (tr : Transport T) (t : T) (k : Nat) : T × WSt × Bool :=
  match tr.call t (.pollReady k) with
  | (t1, .pending) => (t1, .flushing, true)
  | (t1, .ok) => (t1, .done none, false)
  | (t1, .err e) => (t1, .done (some e), false)

/-- one poll of a `stream::write` future on stream `k`; the `Bool` says that a transport call
    answered `Pending` -/
def pollWrite {T : Type} (tr : Transport T) (t : T) (k : Nat) : WSt → T × WSt × Bool
  | .start =>
    match tr.call t (.sendData k) with
    | (t1, .err e) => (t1, .done (some e), false)
    | (t1, _) => pollFlush tr t1 k
  | .flushing => pollFlush tr t k
  | .done r => (t, .done r, false)

/-! ### `ConnectionInner::new` -/

inductive Phase where
  /-- the three `poll_open_send` awaits; `got` = the results so far (`none` = a stream) -/
  | opening (got : List (Option SErr))
  /-- `send_control_stream_headers`: the `join3` of the writes on control, decoder, encoder -/
  | headers (wc wd we : WSt)
  | finished
deriving Repr, DecidableEq

structure BSt where
  phase : Phase := .opening []
  drv : Drv := {}
deriving Repr, DecidableEq

/-- result of a poll: `none` = `Pending`, `some none` = `Ok(conn)`, `some (some e)` = `Err(e)` -/
abbrev Res := Option (Option CErr)

structure PollOut (T : Type) where
  t : T
  st : BSt
  res : Res
  /-- a transport call made during this poll answered `Pending` -/
  sawPending : Bool

/-- the sequential awaits `poll_fn(|cx| conn.poll_open_send(cx)).await` that are still to come -/
def pollOpens {T : Type} (tr : Transport T) : Nat → T → List (Option SErr) → T × List (Option SErr) × Bool
  | 0, t, got => (t, got, false)
  | n+1, t, got =>
    match tr.call t (.openSend got.length) with
    | (t1, .pending) => (t1, got, true)
    | (t1, .ok) => pollOpens tr n t1 (got ++ [none])
    | (t1, .err e) => pollOpens tr n t1 (got ++ [some e])

/-- a QPACK stream that could not be opened is `None` (`qpack_encoder.ok()`): its async block
    in `join3` finishes at once -/
def qpackStart : Option (Option SErr) → WSt
  | some none => .start
  | _ => .done none

/-- the `match control` at the end of `send_control_stream_headers` -/
def finishHeaders (d : Drv) : Option SErr → Drv × Option CErr
  | none => (d, none)
  | some e => let (d1, c) := raise d (ctlStreamErr e); (d1, some c)

/-- the end of a poll of the `join3`, given what the three futures are now: finished when all
    three are, with the control stream's result -/
def joinHeaders {T : Type} (t : T) (d : Drv) (wc wd we : WSt) (p : Bool) : PollOut T :=
  match wc with
  | .done r =>
    if wd.isDone && we.isDone then
      { t := t, st := { phase := .finished, drv := (finishHeaders d r).1 }, res := some (finishHeaders d r).2,
        sawPending := p }
    else { t := t, st := { phase := .headers wc wd we, drv := d }, res := none, sawPending := p }
  | _ => { t := t, st := { phase := .headers wc wd we, drv := d }, res := none, sawPending := p }

/-- the `join3`: control, decoder (stream 2), encoder (stream 1), each polled unless finished -/
def pollHeaders {T : Type} (tr : Transport T) (t : T) (d : Drv) (wc wd we : WSt) : PollOut T :=
  let r1 := pollWrite tr t 0 wc
  let r2 := pollWrite tr r1.1 2 wd
  let r3 := pollWrite tr r2.1 1 we
  joinHeaders r3.1 d r1.2.1 r2.2.1 r3.2.1 (r1.2.2 || r2.2.2 || r3.2.2)

/-- after the third open: the `match control_send`, then `send_control_stream_headers` -/
def afterOpens {T : Type} (tr : Transport T) (t : T) (d : Drv) (got : List (Option SErr)) (p : Bool) : PollOut T :=
  match got[0]? with
  | some (some e) =>
    let (c, cl) := openCtlErr e
    { t := t, st := { phase := .finished, drv := { handled := d.handled, closes := d.closes ++ cl.toList } },
      res := some (some c), sawPending := p }
  | _ =>
    let o := pollHeaders tr t d .start (qpackStart got[2]?) (qpackStart got[1]?)
    { o with sawPending := p || o.sawPending }

/-- one poll of the future `builder.build(conn)` (= `ConnectionInner::new`; the builders add nothing
    that can wait or fail) -/
def buildPoll {T : Type} (tr : Transport T) (t : T) (s : BSt) : PollOut T :=
  match s.phase with
  | .opening got =>
    match pollOpens tr (3 - got.length) t got with
    | (t1, got1, true) => { t := t1, st := { s with phase := .opening got1 }, res := none, sawPending := true }
    | (t1, got1, false) => afterOpens tr t1 s.drv got1 false
  | .headers wc wd we => pollHeaders tr t s.drv wc wd we
  | .finished => { t := t, st := s, res := none, sawPending := false }

/-- the future is polled again and again (`fuel` polls at most) -/
def buildRun {T : Type} (tr : Transport T) : Nat → T → BSt → T × BSt × Res
  | 0, t, s => (t, s, none)
  | n+1, t, s =>
    let o := buildPoll tr t s
    match o.res with
    | some r => (o.t, o.st, some r)
    | none => buildRun tr n o.t o.st

/-! ### the driver after setup -/

/-- what `poll_accept_bi` (→ `poll_accept_bidi`) answers -/
inductive AccBi where
  | pending
  | stream
  | err (q : QErr)
deriving Repr, DecidableEq

/-- the tail of client `poll_close`, reached when the control loop answered `Pending`:
    `if self.inner.poll_accept_bi(cx).is_ready() { handle_connection_error(H3_STREAM_CREATION_ERROR) }`
    (`poll_accept_bi` has raised the transport's error itself before) -/
def clientAcceptBi (d : Drv) : AccBi → Drv × Option CErr
  | .pending => (d, none)
  | .stream => let (d1, c) := raise d (.internal CODE_H3_STREAM_CREATION_ERROR 0); (d1, some c)
  | .err q =>
    let (d1, _) := raise d (.quic q)
    let (d2, c) := raise d1 (.internal CODE_H3_STREAM_CREATION_ERROR 0)
    (d2, some c)

/-- server `poll_accept_request_stream_internal`, the `poll_accept_bi(cx)?` (a stream is a request) -/
def serverAcceptBiErr (d : Drv) (q : QErr) : Drv × CErr := raise d (.quic q)

/-- `ConnectionInner::shutdown`: the GOAWAY write on the own control stream (`none` = written) -/
def shutdownWrite (d : Drv) : Option SErr → Drv × Option CErr
  | none => (d, none)
  | some e => let (d1, c) := raise d (ctlStreamErr e); (d1, some c)

/-- `ConnectionInner::check_connection_error` — what `shutdown` starts with since the repair of D-05s:
    the check `poll_connection_error` makes, without registering a waker — on the shared error
    cell of `H3.ErrCell`: the handled error if there is one; otherwise the cell's error, acted on
    (`close_if_needed`, `convert_to_connection_error`) as a driver poll would; otherwise nothing. -/
def checkError (s : H3.ErrCell.State) : H3.ErrCell.State × Option CErr :=
  match s.handled with
  | some h => (s, some h)
  | none =>
    match s.cell with
    | some e => ({ s with closes := s.closes ++ (closeOf e).toList, handled := some (convert e) }, some (convert e))
    | none => (s, none)

/-- what `ConnectionInner::shutdown` decides before it touches the transport -/
inductive ShutdownPlan where
  /-- the connection has failed: `Err(error)`; `sent_closing` is left alone, nothing is written -/
  | report (h : CErr)
  /-- a GOAWAY whose identifier is not larger was sent before: `Ok(())`, nothing is written -/
  | nothing
  /-- `sent_closing` is set and the GOAWAY frame is written on the control stream -/
  | write
deriving Repr, DecidableEq

/-- the plan, given what `check_connection_error` answered.
    `keeps` = a GOAWAY whose identifier is not larger than the new one was sent before. -/
def shutdownPlanOf (chk : Option CErr) (keeps : Bool) : ShutdownPlan :=
  match chk with
  | some h => .report h
  | none => if keeps then .nothing else .write

/-- the plan over the shared error state (request handles may have written the cell): the check
    looks at `handled` AND the cell (`checkError`); engine `hnd5` -/
def shutdownPlanShared (s : H3.ErrCell.State) (keeps : Bool) : ShutdownPlan :=
  shutdownPlanOf (checkError s).2 keeps

/-- the plan of a driver that shares the error state with nobody (engines `flt` / `flt5`): then
    `check_connection_error` is `d.handled` (`C05_shutdownPlan_is_the_check`). -/
def shutdownPlan (d : Drv) (keeps : Bool) : ShutdownPlan := shutdownPlanOf d.handled keeps

/-- `ConnectionInner::shutdown` as a whole; `w` = what the GOAWAY write answers if it is made -/
def shutdownEntry (d : Drv) (keeps : Bool) (w : Option SErr) : Drv × Option CErr :=
  match shutdownPlan d keeps with
  | .report h => (d, some h)
  | .nothing => (d, none)
  | .write => shutdownWrite d w

/-- `Drop for server::Connection` (h3/src/server/connection.rs):
    `self.inner.close_connection(Code::H3_NO_ERROR, "Connection was closed by the server")` —
    unconditionally, so also when the driver has closed the connection for an error before (a second
    `close` call on the transport: reading R-05) and also when the error cell holds an error the driver
    has not acted on.  `client::Connection` has no `Drop`: its counterpart — the last `SendRequest`
    dropped — raises H3_NO_ERROR *through the error cell* (`handle_connection_error_on_stream`), like
    any handle of `H3.ErrCell`, and therefore never after another error. -/
def dropConn (server : Bool) (d : Drv) : Drv :=
  if server then { d with closes := d.closes ++ [CODE_H3_NO_ERROR] } else d

/-- a transport given by a script: the answers to successive calls, whatever the call (used up = `Pending`) -/
def scriptTr : Transport (List Ans) :=
  { call := fun l _ => match l with
      | [] => ([], .pending)
      | a :: r => (r, a) }

/-- what the property text allows a connection error to look like, given the close calls made:
    a close call exactly when the error was detected locally (by h3, or inside the QUIC trait
    implementation: `InternalError`), with exactly that error's code -/
def OutcomeOK (e : CErr) (closes : List Nat) : Prop :=
  match e with
  | .timeout => closes = []
  | .remote (.internal _) => closes = [CODE_H3_INTERNAL_ERROR]
  | .remote .timeout => False
  | .remote _ => closes = []
  | .localApp c _ => closes = [c]

instance (e : CErr) (closes : List Nat) : Decidable (OutcomeOK e closes) := by
  unfold OutcomeOK; split <;> infer_instance

end H3.Setup
