import H3.Model.E2E
/-! Model of `split()` on a request stream (`h3/src/{server,client}/stream.rs` `RequestStream::split`
    → `connection::RequestStream::split` → `FrameStream::split` (`frame.rs`) →
    `BufRecvStream::split` (`stream.rs`) → `quic::BidiStream::split`).

    A whole request stream is ONE object that owns everything: the receive buffer (`BufList`) and the
    end-of-stream flag of its `BufRecvStream`, the frame decoder's memo, `remaining_data` (how much of
    the current DATA frame's payload has not been handed out), the trailers that `poll_recv_data` /
    `poll_recv_trailers` have put aside, the size limit for field sections, and the send side (the
    `WriteBuf` in flight, `send_grease_frame`).  `split()` consumes it and builds TWO objects:

    * the send half: an empty `BufList`, `FrameDecoder::default()`, `remaining_data = 0`,
      `trailers = None`, `max_field_section_size = 0` — it gets the send side, and nothing of the
      receive state;
    * the receive half: the buffered chunks, `eos`, the decoder with its memo, `remaining_data`, the
      remembered trailers, the size limit — everything a receive call reads.

    The transport stream is split likewise: the events still to come belong to the receive half, the
    write acceptance to the send half.  `Handle` is what the application holds: the whole stream, or
    the two halves (each owned by a task of its own).  Receive calls act on the whole / the receive
    half, send calls on the whole / the send half; `split` is the transition `whole → halves`.

    That a receive call made after the split answers what it would have answered on the whole
    stream is NOT built into these definitions: it depends on `Whole.split` carrying over each of the
    fields above (`H3.Lemmas.E2ESplit`; a `split` that resets `remaining_data` or drops the
    remembered trailers — two seeded changes did exactly that — falsifies the theorems, see the
    examples in `Props/C01.lean`). -/
namespace H3.E2E
open H3.SendSide
open H3.ReqRecv (Role Hdr HClass Res Env St FSt Trace fsSrc fsFuel pollHead pollRecvData pollRecvTrailers)

/-- `FrameStream::split` over `BufRecvStream::split`: the receive-side fields of the two new
    `FrameStream` objects, (send half, receive half).  Send half: `BufList::new()`, `eos` copied,
    `FrameDecoder::default()`, `remaining_data: 0`.  Receive half: `self.buf`, `self.eos`,
    `self.decoder`, `self.remaining_data`. -/
def splitFS (s : H3.FS.St) : H3.FS.St × H3.FS.St :=
  ({ buf := [], eos := s.eos, expected := none, remaining := 0 },
   { buf := s.buf, eos := s.eos, expected := s.expected, remaining := s.remaining })

/-- a whole request stream (`RequestStream<S: BidiStream>`) -/
structure Whole where
  /-- `FrameStream`: `BufRecvStream.{buf, eos}`, `FrameDecoder.expected`, `remaining_data` -/
  fs : H3.FS.St
  /-- the transport's receive stream: the events still to come -/
  script : List H3.FS.Ev
  /-- `RequestStream.trailers` -/
  trailers : Option Bytes := none
  /-- `max_field_section_size` -/
  maxSize : Nat
  /-- what the receive calls have done outside the object (error cell, RESET / STOP_SENDING sent) -/
  env : Env := {}
  /-- the send side with its transport (`WriteBuf` in flight, bytes taken, FIN, `send_grease_frame`) -/
  tx : Stream

/-- the send half (`RequestStream<S::SendStream>`): the receive-side fields exist in the object but
    are fresh; no send call reads them -/
structure SendHalf where
  fs : H3.FS.St
  trailers : Option Bytes
  maxSize : Nat
  tx : Stream

/-- the receive half (`RequestStream<S::RecvStream>`) -/
structure RecvHalf where
  fs : H3.FS.St
  script : List H3.FS.Ev
  trailers : Option Bytes
  maxSize : Nat
  env : Env
  /-- its copy of `send_grease_frame` (never used: a receive half cannot `finish`) -/
  grease : Bool

/-- `connection::RequestStream::split` -/
def Whole.split (w : Whole) : SendHalf × RecvHalf :=
  ({ fs := (splitFS w.fs).1, trailers := none, maxSize := 0, tx := w.tx },
   { fs := (splitFS w.fs).2, script := w.script, trailers := w.trailers, maxSize := w.maxSize,
     env := w.env, grease := w.tx.grease })

/-- what the application holds of one request stream -/
inductive Handle where
  | whole (w : Whole)
  | halves (s : SendHalf) (r : RecvHalf)

/-- `split()`.  A half cannot be split again (`RequestStream<S::SendStream>` / `<S::RecvStream>` are
    not bidirectional): not a step of any program, the handle stays as it is. -/
def Handle.split : Handle → Handle
  | .whole w => .halves w.split.1 w.split.2
  | h => h

/-- the state of the receive machine (`H3.ReqRecv.St` over the `FrameStream` model) inside the
    object the receive calls are made on -/
def Whole.rx (w : Whole) : St FSt := { src := (w.fs, w.script), trailers := w.trailers, env := w.env }
def RecvHalf.rx (r : RecvHalf) : St FSt := { src := (r.fs, r.script), trailers := r.trailers, env := r.env }

def Whole.setRx (w : Whole) (st : St FSt) : Whole :=
  { w with fs := st.src.1, script := st.src.2, trailers := st.trailers, env := st.env }
def RecvHalf.setRx (r : RecvHalf) (st : St FSt) : RecvHalf :=
  { r with fs := st.src.1, script := st.src.2, trailers := st.trailers, env := st.env }

def Handle.rx : Handle → St FSt
  | .whole w => w.rx
  | .halves _ r => r.rx

/-- the size limit of the object that decodes field sections -/
def Handle.maxSize : Handle → Nat
  | .whole w => w.maxSize
  | .halves _ r => r.maxSize

/-- the send side -/
def Handle.tx : Handle → Stream
  | .whole w => w.tx
  | .halves s _ => s.tx

/-- One poll of a receive call, by the task that owns the whole stream / the receive half.  `HL` =
    the header oracle as a function of the size limit of the object polled (`hdrOf H role`). -/
def Handle.recvPoll (HL : Nat → Hdr) (call : RCall) : Handle → Res × Handle
  | .whole w => ((call.poll (HL w.maxSize) w.rx).1, .whole (w.setRx (call.poll (HL w.maxSize) w.rx).2))
  | .halves s r => ((call.poll (HL r.maxSize) r.rx).1, .halves s (r.setRx (call.poll (HL r.maxSize) r.rx).2))

/-- One step of the sending side — a call of the task that owns the whole stream / the send half,
    or a poll of its transport. -/
def Handle.sendOp (op : SOp) : Handle → Handle
  | .whole w => .whole { w with tx := op.apply w.tx }
  | .halves s r => .halves { s with tx := op.apply s.tx } r

/-- what the tasks holding a request stream do, one step each -/
inductive Act where
  | recv (call : RCall)
  | send (op : SOp)
  | split
deriving Repr, DecidableEq

def Handle.act (HL : Nat → Hdr) (h : Handle) : Act → Option Res × Handle
  | .recv call => (some (h.recvPoll HL call).1, (h.recvPoll HL call).2)
  | .send op => (none, h.sendOp op)
  | .split => (none, h.split)

/-- any interleaving of receive polls, send steps and `split()`: the answers of the receive polls,
    in order, and the handle at the end -/
def Handle.run (HL : Nat → Hdr) : Handle → List Act → List Res × Handle
  | h, [] => ([], h)
  | h, a :: r =>
    ((h.act HL a).1.toList ++ (Handle.run HL (h.act HL a).2 r).1, (Handle.run HL (h.act HL a).2 r).2)

def Act.recv? : Act → Option RCall
  | .recv c => some c
  | _ => none

def Act.send? : Act → Option SOp
  | .send op => some op
  | _ => none

/-- a receive machine alone: polls one after the other -/
def pollsRun (H : Hdr) : St FSt → List RCall → List Res × St FSt
  | st, [] => ([], st)
  | st, c :: r => ((c.poll H st).1 :: (pollsRun H (c.poll H st).2 r).1, (pollsRun H (c.poll H st).2 r).2)

/-! ### the documented receive pattern on a handle, with a `split()` between any two calls -/

/-- `.await` of one receive call on a handle (as `await`: polled again after `Pending` while the
    transport has events) -/
def Handle.await (HL : Nat → Hdr) (call : RCall) : Nat → Handle → Res × Handle
  | 0, h => (.invalid, h)
  | fuel+1, h =>
    if (h.recvPoll HL call).1 = .pending ∧ (h.recvPoll HL call).2.rx.src.2 ≠ [] then
      Handle.await HL call fuel (h.recvPoll HL call).2
    else h.recvPoll HL call

def Handle.awaitCall (HL : Nat → Hdr) (call : RCall) (h : Handle) : Res × Handle :=
  Handle.await HL call (fsFuel h.rx.src) h

/-- the application splits the stream just before its `k`-th awaited call from here (`none`: it does
    not split, or has done so) -/
def tick : Option Nat × Handle → Option Nat × Handle
  | (some 0, h) => (none, h.split)
  | (some (k+1), h) => (some k, h)
  | (none, h) => (none, h)

/-- `recv_data().await` until it answers something else than a piece of data -/
def recvBodyH (HL : Nat → Hdr) : Nat → Option Nat × Handle → List Res × (Option Nat × Handle)
  | 0, x => ([.invalid], x)
  | fuel+1, x =>
    match ((tick x).2.awaitCall HL .data).1 with
    | .data d =>
      (.data d :: (recvBodyH HL fuel ((tick x).1, ((tick x).2.awaitCall HL .data).2)).1,
       (recvBodyH HL fuel ((tick x).1, ((tick x).2.awaitCall HL .data).2)).2)
    | r => ([r], ((tick x).1, ((tick x).2.awaitCall HL .data).2))

/-- after the head: the body until its end is reported, then `recv_trailers().await` -/
def recvTailH (HL : Nat → Hdr) (x : Option Nat × Handle) : List Res × Option Res × Handle :=
  let q := recvBodyH HL (fsFuel x.2.rx.src) x
  if q.1.getLast? = some .end_ then
    (q.1, some ((tick q.2).2.awaitCall HL .trailers).1, ((tick q.2).2.awaitCall HL .trailers).2)
  else (q.1, none, q.2.2)

/-- The documented receive pattern — head call, `recv_data` until `None`, `recv_trailers`, every call
    awaited — on a handle that the application splits just before its `k`-th call (`k = some 0`:
    before the head call, which only a client can do — a server is handed the stream by
    `resolve_request`; `k` beyond the number of calls or `none`: no split).  Returns what the calls
    answered and the handle at the end. -/
def recvPatternH (role : Role) (HL : Nat → Hdr) (k : Option Nat) (h : Handle) : Trace × Handle :=
  let x := tick (k, h)
  let p := x.2.awaitCall HL (.head role)
  match p.1 with
  | .head b =>
    let q := recvTailH HL (x.1, p.2)
    ({ head := .head b, body := q.1, trailers := q.2.1, env := q.2.2.rx.env }, q.2.2)
  | r => ({ head := r, env := p.2.rx.env }, p.2)

/-- `recvTail` from any state of the receive machine, with the state at the end -/
def recvTailFrom (H : Hdr) (st : St FSt) : List Res × Option Res × St FSt :=
  let q := recvBody (fsFuel st.src) st
  if q.1.getLast? = some .end_ then
    (q.1, some (awaitCall (pollRecvTrailers fsSrc H) q.2).1, (awaitCall (pollRecvTrailers fsSrc H) q.2).2)
  else (q.1, none, q.2)

/-- `recvPattern` from any state of the receive machine, with the state at the end -/
def recvPatternFrom (role : Role) (H : Hdr) (st : St FSt) : Trace × St FSt :=
  let p := awaitCall (pollHead role fsSrc H) st
  match p.1 with
  | .head b =>
    let q := recvTailFrom H p.2
    ({ head := .head b, body := q.1, trailers := q.2.1, env := q.2.2.env }, q.2.2)
  | r => ({ head := r, env := p.2.env }, p.2)

/-- a stream just opened / accepted, nothing received yet, `script` = what the transport will deliver -/
def Whole.fresh (script : List H3.FS.Ev) (maxSize : Nat) (tx : Stream) : Whole :=
  { fs := {}, script := script, maxSize := maxSize, tx := tx }

end H3.E2E
