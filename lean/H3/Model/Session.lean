import H3.Model.Varint
import H3.Model.Frame
import H3.Model.FrameStream
import H3.Model.WriteBuf
import H3.Model.UniAccept
import H3.Gen.Consts
/-! Model of the WebTransport session-id plumbing: `h3/src/webtransport/session_id.rs`
    (`From<StreamId> for SessionId`, `From<SessionId> for StreamId`), the stream headers written
    by `open_bi`/`open_uni` (`WriteBuf::from(BidiStreamHeader::WebTransportBidi(id))`,
    `UniStreamHeader::WebTransportUni(id)` in `h3/src/stream.rs`) and the gate in
    `ConnectionInner::poll_accept_recv`. -/
namespace H3.Session
open H3.Gen.Consts

/-- `impl From<StreamId> for SessionId` (after fix 6d420be: the stream id itself) -/
def ofStream (id : Nat) : Nat := id
/-- `impl From<SessionId> for StreamId` -/
def toStream (s : Nat) : Nat := s

/-- what `accept` reports for a session whose CONNECT request arrived on stream `connect` -/
def acceptedSessionId (connect : Nat) : Nat := ofStream connect

/-- bytes at the start of a bidirectional stream opened for session `s` -/
def bidiHeader (s : Nat) : List Nat := Varint.encode FRAME_WEBTRANSPORT_BI_STREAM ++ Varint.encode s
/-- bytes at the start of a unidirectional stream opened for session `s` -/
def uniHeader (s : Nat) : List Nat := Varint.encode STREAM_WEBTRANSPORT_UNI ++ Varint.encode s

/-- `AcceptedRecvStream::WebTransportUni(id, s) if self.config.settings.enable_webtransport`:
    a uni stream of type `ty` is surfaced to the session iff it is a WebTransport stream and the
    extension is enabled; otherwise it falls to the `_ => ()` arm (dropped silently). -/
def surfaceUni (enabled : Bool) (ty : Nat) : Bool := ty == STREAM_WEBTRANSPORT_UNI && enabled

/-- `BufRecvStream::poll_data` after `into_inner`/type resolution: buffered chunks first, then
    the transport's; the bytes a reader obtains are their concatenation. -/
def readAll (buffered : List (List Nat)) (later : List (List Nat)) : List Nat :=
  (buffered ++ later).flatten

/-! ## Reading a WebTransport stream through the `AsyncRead` impls

`h3/src/stream.rs`: `impl futures_util::io::AsyncRead for BufRecvStream` and `impl
tokio::io::AsyncRead for BufRecvStream` (the two differ only in how the caller's buffer is
passed: `&mut [u8]` of length `n` / a `ReadBuf` with `n` bytes `remaining()`);
`h3-webtransport/src/stream.rs` forwards `RecvStream::poll_read` and `BidiStream::poll_read`
to them; `BufRecvStream::split` hands `buf` and `eos` to the receive half unchanged.  The
transport is a script of answers as in `H3.FS.Ev`; its end (FIN or RESET) is sticky. -/

open H3.FS (Ev takeChunk)

/-- `BufRecvStream` as the `AsyncRead` impls see it (what `FrameStream::into_inner()` /
    `AcceptRecvStream::into_stream()` hand over): the `BufList` and the `eos` flag. -/
structure Rd where
  buf : List (List Nat) := []
  eos : Bool := false
deriving Repr, DecidableEq

/-- `FrameStream::into_inner()` -/
def Rd.ofFS (s : H3.FS.St) : Rd := { buf := s.buf, eos := s.eos }

/-- `AcceptRecvStream::into_stream()` for a resolved WebTransport uni stream: the bytes behind the
    header are what is left of the chunk the header ended in (`poll_next_varint` pulls one chunk
    at a time and only when the buffered bytes do not suffice) -/
def Rd.ofUni (s : H3.UniAccept.St) : Rd :=
  { buf := if s.buf = [] then [] else [s.buf], eos := s.ended == some .fin }

/-- the transport's answers from then on: the rest of the script; an end already seen is sticky -/
def uniScript (s : H3.UniAccept.St) (r : List Ev) : List Ev :=
  match s.ended with
  | none => r
  | some .fin => .fin :: r
  | some (.reset c) => .reset c :: r

/-- answer of one `poll_read(cx, buf)` -/
inductive RdOut where
  /-- futures: `Ready(Ok(b.len()))`, `b` copied to the front of the buffer; tokio:
      `Ready(Ok(()))` after `put_slice(b)`.  `b = []` is what the caller takes for the end. -/
  | data (b : List Nat)
  /-- futures: `Ready(Ok(0))`; tokio: `Ready(Ok(()))`, nothing filled -/
  | eof
  | pending
  /-- `io::Error::other(StreamErrorIncoming::StreamTerminated { error_code: c })` -/
  | err (c : Nat)
deriving Repr, DecidableEq

/-- `let chunk = p.buf_mut().take_chunk(buf.len())` and the copy into the caller's buffer -/
def takeLim (n : Nat) (s : Rd) : RdOut × Rd :=
  match takeChunk n s.buf with
  | (some d, buf') => (.data d, { s with buf := buf' })
  | (none, _) => (.data [], s)

/-- `AsyncRead::poll_read` with a caller buffer of `n` bytes: buffered bytes are served without
    asking the transport; only an empty buffer makes `BufRecvStream::poll_read` pull one chunk. -/
def pollRead (n : Nat) (s : Rd) (script : List Ev) : RdOut × Rd × List Ev :=
  if s.buf.flatten ≠ [] then
    ((takeLim n s).1, (takeLim n s).2, script)
  else match script with
    | [] => (.pending, s, [])
    | .pend :: r => (.pending, s, r)
    | .fin :: r => (.eof, { s with eos := true }, .fin :: r)
    | .reset c :: r => (.err c, s, .reset c :: r)
    | .chunk b :: r =>
      let s1 := { s with buf := s.buf ++ [b] }
      ((takeLim n s1).1, (takeLim n s1).2, r)

/-- how a read loop ended -/
inductive RdEnd where
  /-- a call answered `Ok(0)` -/
  | eof
  | err (c : Nat)
  /-- `Pending`, and the transport has nothing more to say for now -/
  | open_
  /-- the caller stopped although the stream has not ended (no buffer sizes left) -/
  | more
deriving Repr, DecidableEq

structure RdRes where
  /-- the bytes each completed call reported, in order -/
  pieces : List (List Nat)
  fin : RdEnd
  s : Rd
  script : List Ev
  /-- the buffer sizes not used -/
  left : List Nat
deriving Repr, DecidableEq

/-- every `Pending` answer is followed by another call with the same buffer once the transport
    has more to say (`pollRead n s (.pend :: r) = (.pending, s, r)` on an empty buffer) -/
def skipPend : List Ev → List Ev
  | .pend :: r => skipPend r
  | sc => sc

/-- An application reading with caller buffers of sizes `n₁, n₂, …` (one per completed call) until
    a call reports 0 bytes, an error, or the sizes are used up. -/
def readLim : List Nat → Rd → List Ev → RdRes
  | [], s, sc => { pieces := [], fin := .more, s := s, script := sc, left := [] }
  | n :: ns, s, sc =>
    let sc1 := if s.buf.flatten ≠ [] then sc else skipPend sc
    match pollRead n s sc1 with
    | (.data d, s', r) =>
      if d = [] then { pieces := [], fin := .eof, s := s', script := r, left := ns }
      else
        let t := readLim ns s' r
        { t with pieces := d :: t.pieces }
    | (.eof, s', r) => { pieces := [], fin := .eof, s := s', script := r, left := ns }
    | (.err c, s', r) => { pieces := [], fin := .err c, s := s', script := r, left := ns }
    | (.pending, s', r) => { pieces := [], fin := .open_, s := s', script := r, left := n :: ns }

/-! ## Buffered WebTransport uni streams: `pending_recv_streams` and `wt_uni_streams`

`h3/src/connection.rs` `ConnectionInner::poll_accept_recv`: every uni stream the transport hands
over is appended to `pending_recv_streams`; one pass of `for stream in
self.pending_recv_streams.iter_mut()` polls `poll_type` of each, in that order: a stream whose
header is complete is taken out and — `AcceptedRecvStream::WebTransportUni(id, s) if
self.config.settings.enable_webtransport` — `self.accepted_streams.wt_uni_streams.push((id, s))`;
a stream that ended inside its header (`PollTypeError::EndOfStream`) is removed silently; one whose
header is still incomplete stays.  `h3-webtransport/src/server.rs` `AcceptUni::poll`:
`conn.inner.poll_accept_recv(cx)?` and then `streams.wt_uni_streams.pop()` — the entry pushed
LAST; `Pending` when the `Vec` is empty.  (Bidirectional streams are not buffered by h3:
`accept_bi` takes the next one from the transport and keeps it inside its own future until the
first frame is there.) -/

/-- an incoming uni stream as `pending_recv_streams` holds it: the QUIC stream id and what the
    transport has delivered / will deliver on it -/
structure UniIn where
  stream : Nat
  evs : List Ev
deriving Repr, DecidableEq

/-- an entry of `wt_uni_streams`, `(SessionId, BufRecvStream)`: the session id the header
    carried, the `BufRecvStream` (what is buffered behind the header, `eos`) and the transport's
    answers from then on; `stream` = `recv_id()` of the `BufRecvStream` -/
structure WtUni where
  stream : Nat
  session : Nat
  rd : Rd
  script : List Ev
deriving Repr, DecidableEq

/-- what one pass over `pending_recv_streams` does with one stream -/
inductive UniFate where
  /-- header complete, WebTransport type, extension enabled: pushed on `wt_uni_streams` -/
  | surface (session : Nat) (rd : Rd) (script : List Ev)
  /-- removed and never surfaced: ended inside its header; another stream type (their arms are
      C04's subject); WebTransport type with the extension off (the `_ => ()` arm) -/
  | gone
  /-- header still incomplete: stays in `pending_recv_streams` -/
  | wait
deriving Repr, DecidableEq

def uniFate (enabled : Bool) (evs : List Ev) : UniFate :=
  match H3.UniAccept.resolve (evs.length + 1) {} evs with
  | .resolved s rest =>
    match H3.UniAccept.intoStream s with
    | some (.wtUni id) => if enabled then .surface id (Rd.ofUni s) (uniScript s rest) else .gone
    | _ => .gone
  | .waiting _ => .wait
  | .dropped => .gone
  | .internal => .gone

/-- the part of `ConnectionInner` that `accept_uni` touches -/
structure Accepted where
  /-- `pending_recv_streams`, in the order the transport handed the streams over -/
  pending : List UniIn := []
  /-- `accepted_streams.wt_uni_streams`; `push` appends at the end -/
  wt : List WtUni := []
deriving Repr, DecidableEq

/-- the body of the `for` loop for one stream, `acc` = what the pass has built so far -/
def Accepted.passOne (enabled : Bool) (acc : Accepted) (u : UniIn) : Accepted :=
  match uniFate enabled u.evs with
  | .surface id rd sc => { acc with wt := acc.wt ++ [⟨u.stream, id, rd, sc⟩] }
  | .gone => acc
  | .wait => { acc with pending := acc.pending ++ [u] }

/-- one `poll_accept_recv` (the part about uni streams that are not h3's own) -/
def Accepted.pass (enabled : Bool) (a : Accepted) : Accepted :=
  a.pending.foldl (Accepted.passOne enabled) { pending := [], wt := a.wt }

/-- `Vec::pop` -/
def popLast {α} (l : List α) : Option (α × List α) :=
  match l.reverse with
  | [] => none
  | x :: r => some (x, r.reverse)

/-- `AcceptUni::poll`: `none` = `Poll::Pending` -/
def Accepted.acceptUni (enabled : Bool) (a : Accepted) : Option WtUni × Accepted :=
  match popLast (a.pass enabled).wt with
  | none => (none, a.pass enabled)
  | some (x, r) => (some x, { a.pass enabled with wt := r })

/-- the transport hands over one more stream -/
def Accepted.arrive (a : Accepted) (u : UniIn) : Accepted := { a with pending := a.pending ++ [u] }

/-- what the application and the peer do, as far as `accept_uni` is concerned -/
inductive AOp where
  /-- the peer opens a uni stream and the transport delivers `evs` on it -/
  | arrive (u : UniIn)
  /-- one `accept_uni().await` that is polled once (it answers or stays `Pending`) -/
  | accept
deriving Repr, DecidableEq

/-- the streams surfaced by a sequence of arrivals and `accept_uni` polls, in order, and the state
    left behind -/
def runAccepts (enabled : Bool) : Accepted → List AOp → List WtUni × Accepted
  | a, [] => ([], a)
  | a, .arrive u :: r => runAccepts enabled (a.arrive u) r
  | a, .accept :: r =>
    match a.acceptUni enabled with
    | (some e, a') => (e :: (runAccepts enabled a' r).1, (runAccepts enabled a' r).2)
    | (none, a') => runAccepts enabled a' r

/-! ## Writing on a WebTransport stream

`h3-webtransport/src/server.rs` `OpenBi`/`OpenUni`: `WriteBuf::from(BidiStreamHeader::
WebTransportBidi(id))` / `WriteBuf::from(UniStreamHeader::WebTransportUni(id))`, then `while
buf.has_remaining() { ready!(stream.poll_send(cx, buf)) }` — the transport looks at `chunk()`,
takes a prefix of it and `advance`s: `H3.WriteBuf.write` against an acceptance script (one entry
per `poll_send` = the number of bytes the transport is willing to take, `0` = `Pending`).
`h3-webtransport/src/stream.rs` + `h3/src/stream.rs`: `poll_send` / `AsyncWrite::poll_write`
(futures and tokio) hand a byte slice to the transport's `poll_send`; `send_data` + `poll_ready`
hand it a `WriteBuf` (for the application: `Frame::Data(bytes)`); `poll_finish` / `poll_close` /
`poll_shutdown`, `reset`, `stop_sending` go to the transport unchanged. -/

open H3.WriteBuf (WB WriteRes fromBidiHeader fromUniHeader fromFrame)

/-- `poll_send(cx, &mut &[u8])` called with the rest of the slice until all of it is taken:
    what the transport accepted, what is left when the script ends. -/
def sendSlice : List Nat → List Nat → List Nat × List Nat
  | d, [] => ([], d)
  | d, k :: ks =>
    if d = [] then ([], [])
    else
      let n := min k d.length
      ((d.take n) ++ (sendSlice (d.drop n) ks).1, (sendSlice (d.drop n) ks).2)

/-- one write call of the application, with the acceptance script the transport follows during it -/
inductive WOp where
  /-- `poll_send` / `AsyncWrite::poll_write` with a byte slice, until all of it is taken -/
  | slice (d : List Nat) (script : List Nat)
  /-- `send_data(Frame::Data(p))` then `poll_ready` until done -/
  | frame (p : List Nat) (script : List Nat)
  /-- `poll_finish` / `AsyncWrite::poll_close` / `AsyncWrite::poll_shutdown` -/
  | finish
  /-- `reset(code)` -/
  | reset (c : Nat)
deriving Repr, DecidableEq

/-- the send side of one stream as the transport sees it -/
structure Tx where
  /-- every byte the transport has accepted, in order -/
  wire : List Nat := []
  fin : Bool := false
  rst : Option Nat := none
  /-- a call has not completed (it waits for the transport) or panicked: the calls behind it are
      never made -/
  stuck : Bool := false
  panic : Bool := false
deriving Repr, DecidableEq

/-- a `WriteBuf` handed to the transport -/
def Tx.writeBuf (t : Tx) (w : Option WB) (script : List Nat) : Tx :=
  if t.stuck then t else
  match H3.WriteBuf.write w script with
  | .ready out => { t with wire := t.wire ++ out }
  | .pending out _ => { t with wire := t.wire ++ out, stuck := true }
  | .panic => { t with stuck := true, panic := true }

def Tx.op (t : Tx) : WOp → Tx
  | .slice d sc =>
    if t.stuck then t
    else { t with wire := t.wire ++ (sendSlice d sc).1, stuck := !(sendSlice d sc).2.isEmpty }
  | .frame p sc => t.writeBuf (fromFrame (.data p)) sc
  | .finish => if t.stuck then t else { t with fin := true }
  | .reset c => if t.stuck then t else { t with rst := some (t.rst.getD c) }

/-- `open_bi(sid)` under the acceptance script `hs`, then the application's calls -/
def openBidi (sid : Nat) (hs : List Nat) (ops : List WOp) : Tx :=
  ops.foldl Tx.op (({} : Tx).writeBuf (fromBidiHeader sid) hs)

/-- `open_uni(sid)` under the acceptance script `hs`, then the application's calls -/
def openUni (sid : Nat) (hs : List Nat) (ops : List WOp) : Tx :=
  ops.foldl Tx.op (({} : Tx).writeBuf (fromUniHeader (.webTransportUni sid)) hs)

end H3.Session
