import H3.Model.Varint
import H3.Model.Frame
import H3.Gen.Consts
/-! Model of the WebTransport session-id plumbing: `h3/src/webtransport/session_id.rs`
    (`From<StreamId> for SessionId`, `From<SessionId> for StreamId`), the stream headers written
    by `open_bi`/`open_uni` (`WriteBuf::from(BidiStreamHeader::WebTransportBidi(id))`,
    `UniStreamHeader::WebTransportUni(id)` in `h3/src/stream.rs`) and the gate in
    `ConnectionInner::poll_accept_recv`. -/
namespace H3.Session
open H3.Gen.Consts

/-- `impl From<StreamId> for SessionId` (after fix 6d420be: the stream id itself) -/
def ofStream (id : Nat) : Nat := id
/-- `impl From<SessionId> for StreamId` -/
def toStream (s : Nat) : Nat := s

/-- what `accept` reports for a session whose CONNECT request arrived on stream `connect` -/
def acceptedSessionId (connect : Nat) : Nat := ofStream connect

/-- bytes at the start of a bidirectional stream opened for session `s` -/
def bidiHeader (s : Nat) : List Nat := Varint.encode FRAME_WEBTRANSPORT_BI_STREAM ++ Varint.encode s
/-- bytes at the start of a unidirectional stream opened for session `s` -/
def uniHeader (s : Nat) : List Nat := Varint.encode STREAM_WEBTRANSPORT_UNI ++ Varint.encode s

/-- `AcceptedRecvStream::WebTransportUni(id, s) if self.config.settings.enable_webtransport`:
    a uni stream of type `ty` is surfaced to the session iff it is a WebTransport stream and the
    extension is enabled; otherwise it falls to the `_ => ()` arm (dropped silently). -/
def surfaceUni (enabled : Bool) (ty : Nat) : Bool := ty == STREAM_WEBTRANSPORT_UNI && enabled

/-- `BufRecvStream::poll_data` after `into_inner`/type resolution: buffered chunks first, then
    the transport's; the bytes a reader obtains are their concatenation. -/
def readAll (buffered : List (List Nat)) (later : List (List Nat)) : List Nat :=
  (buffered ++ later).flatten

end H3.Session
